import sys, random, collections
sys.path.insert(0, "/tmp/proto")
import selfies as sf
import refsmiles
from functools import lru_cache
rng = random.Random(int(sys.argv[1])); N = int(sys.argv[2])
c = sf.get_preset_constraints("hypervalent"); c.update({"?": 12}); sf.set_semantic_constraints(c)

def ring_system():
    sizes = [6,6,6,5,5,7,4,3,8]
    k = rng.choice(sizes)
    adj = {i: set() for i in range(k)}
    for i in range(k): adj[i].add((i+1)%k); adj[(i+1)%k].add(i)
    for _ in range(rng.randint(0,4)):
        edges = [(a,b) for a in adj for b in adj[a] if a<b and len(adj[a])==2 and len(adj[b])==2]
        if not edges: break
        a,b = rng.choice(edges)
        k = rng.choice(sizes)
        prev = a
        for j in range(k-2):
            n = len(adj); adj[n] = set(); adj[prev].add(n); adj[n].add(prev); prev = n
        adj[prev].add(b); adj[b].add(prev)
    return adj
KINDS2 = [("c",True),("c",True),("c",True),("n",True),("o",False),("s",False),("[nH]",False),("n(C)",False),("c(C)",True),("c(=O)",False),("[n+](C)",True),("[nH+]",True),("c(F)",True),("n(-c%98ccccc%98)",False)]
KINDS3 = [("c",True),("c",True),("c",True),("n",False),("[n+]",True)]
def has_pm(nodes, adj):
    nodes = sorted(nodes); n=len(nodes); pos={v:i for i,v in enumerate(nodes)}
    if n%2: return False
    nb=[[pos[w] for w in adj[v] if w in pos] for v in nodes]
    @lru_cache(None)
    def f(mask):
        if mask==(1<<n)-1: return True
        i=0
        while mask>>i&1: i+=1
        for j in nb[i]:
            if not mask>>j&1 and f(mask|1<<i|1<<j): return True
        return False
    return f(0)
def write(adj, kind):
    # random DFS spelling
    n=len(adj); visited=set(); order=[]; pieces=[]
    closing={}; events={x:[] for x in adj}
    plan={}
    def rec(x,parent):
        visited.add(x); order.append(x)
        nb=[y for y in adj[x] if y!=parent]; rng.shuffle(nb)
        plan[x]=[]
        for y in nb:
            if y in visited:
                key=frozenset((x,y))
                if key not in closing: closing[key]=(y,x)
        for y in nb:
            if y in visited: continue
            plan[x].append(y); rec(y,x)
    root=rng.randrange(n); rec(root,None)
    for key,(op,cl) in closing.items(): events[op].append(key); events[cl].append(key)
    for x in events: rng.shuffle(events[x])
    free=list(range(1,98)); lab={}
    def emit(x):
        txt=kind[x][0]
        # split substituent: atom token first then ring digits then substituent
        if txt.startswith('['):
            j=txt.index(']')+1
        else: j=1
        atom,sub=txt[:j],txt[j:]
        pieces.append(atom)
        for key in events[x]:
            if key not in lab:
                l=rng.choice(free[:3]); free.remove(l); lab[key]=l; pieces.append(str(l) if l<10 else '%%%02d'%l)
            else:
                l=lab[key]; pieces.append(str(l) if l<10 else '%%%02d'%l); free.append(l); free.sort()
        kids=plan[x]
        subs=[sub] if sub else []
        items=[('k',y) for y in kids]+[('s',s) for s in subs]
        rng.shuffle(items)
        # substituent last must not be in parens... any item can be last
        for i,(t,v) in enumerate(items):
            last=i==len(items)-1
            if t=='s':
                # v like "(C)" -> inner
                inner=v[1:-1]
                pieces.append(inner if last else v)
            else:
                if not last: pieces.append('(')
                emit(v)
                if not last: pieces.append(')')
    emit(root)
    return ''.join(pieces), order
bad=collections.Counter(); ex={}; stats=collections.Counter()
def note(k,v):
    bad[k]+=1
    if k not in ex or len(v[0])<len(ex[k][0]): ex[k]=v
for t in range(N):
    adj=ring_system()
    kind={x:(rng.choice(KINDS2) if len(adj[x])==2 else rng.choice(KINDS3)) for x in adj}
    S={x for x in adj if kind[x][1]}
    pm=has_pm(S,adj)
    stats['pm' if pm else 'nopm']+=1
    results=set()
    for rep in range(3):
        smi,order=write(adj,kind)
        try:
            e=sf.encoder(smi); acc=True
        except sf.EncoderError as x:
            acc=False
        except Exception as x:
            note('ESC '+type(x).__name__,(smi,)); continue
        if acc!=pm: note('accept_mismatch exp=%s'%pm,(smi,)); continue
        if not acc: continue
        d=sf.decoder(e)
        out=refsmiles.read(d)
        # ring-system atoms are the first appearances in 'order'; map by reading input with my reader
        rin=refsmiles.read(smi)
        if len(rin.atoms)!=len(out.atoms): note('atomcount',(smi,d)); continue
        arom=[i for i,a in enumerate(rin.atoms) if a['arom']]
        aset=set(arom)
        # sigma skeleton
        if set(rin.bonds)!=set(out.bonds): note('skeleton',(smi,d)); continue
        dbl=collections.Counter()
        for (i,j),o in out.bonds.items():
            if i in aset and j in aset and rin.bonds[(i,j)]==1.5:
                if o==2: dbl[i]+=1; dbl[j]+=1
                elif o!=1: note('order',(smi,d))
            elif rin.bonds[(i,j)]!=o: note('nonarom_bond_changed',(smi,d))
        # map aromatic ring atoms: the i-th aromatic atom in reading order that belongs to ring system... use needs-pi by matching counts only
        # expected needs-pi per written atom: recompute from kinds via order: ring-system node sequence = order restricted; substituent atoms interleave. Simplify: compare multiset sizes
        if any(v>1 for v in dbl.values()): note('two_doubles',(smi,d)); continue
        if len(dbl)!=len(S)+ sum(6 for x in adj if kind[x][0].startswith("n(-c%98")): note('needs_pi_count',(smi,d,len(dbl),len(S)))
        stats['accepted']+=1
print(stats,bad)
for k,v in ex.items(): print(k,v)
