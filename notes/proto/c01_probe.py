import selfies as sf, random, collections, sys
from rdkit import Chem
from rdkit import RDLogger; RDLogger.DisableLog('rdApp.*')
random.seed(int(sys.argv[1]))
alpha = sorted(sf.get_semantic_robust_alphabet())
atoms = [a for a in alpha if 'Ring' not in a and 'Branch' not in a]
poly = [a for a in atoms if a.strip('[]=#') in ('C','N','P','S','B','C+1','C-1','N+1','P+1','P-1','S+1','S-1','B-1','O+1')]
idx = list(sf.constants.INDEX_ALPHABET) if hasattr(sf,'constants') else None
from selfies.constants import INDEX_ALPHABET
stats = collections.Counter(); ex = {}
for t in range(int(sys.argv[2])):
    n = random.randint(1, 80)
    toks = []
    for _ in range(n):
        r = random.random()
        if r < 0.55: toks.append(random.choice(poly))
        elif r < 0.65: toks.append(random.choice(atoms))
        elif r < 0.80:
            L = random.choice([1,1,1,2]); toks.append(random.choice(['','=','#'])+'Ring%d'%L); toks[-1]='['+toks[-1]+']'
            for _ in range(L): toks.append(random.choice(INDEX_ALPHABET[:8] if L==1 else INDEX_ALPHABET[:2]))
        elif r < 0.95:
            L = random.choice([1,1,1,2]); toks.append('['+random.choice(['','=','#'])+'Branch%d]'%L)
            for _ in range(L): toks.append(random.choice(INDEX_ALPHABET[:6] if L==1 else INDEX_ALPHABET[:2]))
        else: toks.append('.')
    s = ''.join(toks).replace('..','.')
    smi = sf.decoder(s)
    m = Chem.MolFromSmiles(smi)
    stats['n']+=1
    stats['rings_ge3'] += smi.count('3')>0
    if m is None:
        stats['invalid']+=1
        if 'inv' not in ex or len(s)<len(ex['inv'][0]): ex['inv']=(s,smi)
print(stats, ex)
