import sys, random, collections
sys.path.insert(0, "/tmp/proto")
import selfies as sf
import molgen, refderive
rng = random.Random(int(sys.argv[1])); N=int(sys.argv[2])
bad=collections.Counter(); ex={}; st=collections.Counter()
for t in range(N):
    m = molgen.rand_mol(rng)
    # add charges / bracket variety
    for i,a in enumerate(m.atoms):
        if rng.random()<0.15 and not a['chiral']:
            a['charge']=rng.choice([-2,-1,1,1,2,10,12]); 
            if a['h'] is None: a['h']=rng.choice([0,0,1])
        if rng.random()<0.1 and not a['chiral']:
            a['el']=rng.choice(['Fe','Si','Se','Xe','Sn']); 
            if a['h'] is None: a['h']=0
    smi, order, nbw = molgen.write(m, rng)
    usage={}
    for i,a in enumerate(m.atoms):
        cnt=sum(m.order[frozenset((i,j))] for j in m.adj[i])+(a['h'] or 0)
        key=a['el'] if a['charge']==0 else '%s%+d'%(a['el'],a['charge'])
        usage.setdefault(key,[]).append(cnt)
    base = sf.get_preset_constraints(rng.choice(['default','octet_rule','hypervalent']))
    table=dict(base)
    for key,cnts in usage.items():
        if rng.random()<0.6:
            table[key]=max(0,max(cnts)+rng.choice([-1,0,0,1]))
    table['?']=rng.choice([0,1,2,3,4,8])
    sf.set_semantic_constraints(table)
    viol = any(c > (table[k] if k in table else table['?']) for k,cs in usage.items() for c in cs)
    try: e=sf.encoder(smi, strict=True); raised=False
    except sf.EncoderError: raised=True
    st['viol' if viol else 'ok']+=1
    if raised!=viol: bad['strict_mismatch viol=%s'%viol]+=1; ex[viol]=(smi,table)
    e2=sf.encoder(smi, strict=False)
    sf.set_semantic_constraints('hypervalent')
    if sf.encoder(smi, strict=False)!=e2: bad['nonstrict_depends']+=1
print(st,bad,ex)
