import selfies as sf, random, collections, sys, traceback
random.seed(int(sys.argv[1]))
frags = ["C","c","N","n","O","o","S","s","P","p","F","Cl","Br","I","B","b","[","]","(",")",".","=","#","-","/","\\",":","$","*","%","1","2","3","0","9","%10","%99","[nH]","[C@@H]","[C@]","[O-]","[N+]","[Fe++]","[13C]","[CH4]","[se]","[te]","[as]","[si]","[al]","[b-]","[c-]","[c+]","[n+]","[n-]","[o+]","[s+]","[cH]","[cH-]","[H]","[2H]","[H+]","[Xx]","[C:1]","[CH10]","@","H","+","12","c1ccccc1","C1CC1","c1cc","[nH]1","~","[c]","[n]","[o]","[b]","[p]","[s]","[bH]","[pH]","[sH]","[sH+]","[siH]","[alH]","[asH]","[seH]","[teH]","[te+]","[se+]","[as+]", "[as-]","[al-]","[si-]","[b+]"]
buckets = collections.Counter(); ex = {}
for t in range(int(sys.argv[2])):
    k = random.randint(1,10)
    s = "".join(random.choice(frags) for _ in range(k))
    for strict in (True, False):
      for attr in (False, True):
        try: sf.encoder(s, strict=strict, attribute=attr)
        except sf.EncoderError: pass
        except Exception as e:
            tb = [f for f in traceback.extract_tb(e.__traceback__) if 'selfies' in f.filename]
            key = (type(e).__name__, tb[-1].filename.split('/')[-1], tb[-1].name, tb[-1].lineno)
            buckets[key]+=1
            if key not in ex or len(s)<len(ex[key]): ex[key]=s
for k,v in sorted(buckets.items()): print(k,v,repr(ex[k]))
