import sys, random, collections
sys.path.insert(0, "/tmp/proto")
import selfies as sf
src = open('/tmp/proto/rand_c02.py').read().split('if __name__')[0].replace('random.seed(int(sys.argv[1]))','').replace('N = int(sys.argv[2])','')
exec(src)
random.seed(int(sys.argv[1])); N=int(sys.argv[2])
import refderive
bad=collections.Counter(); ex={}
def outcome(s):
    try: return ('ok', sf.decoder(s))
    except sf.DecoderError: return ('err',)
for t in range(N):
    import re
    s = re.sub(r'\.+','.',rand_string().replace('[nop]','')).strip('.')
    toks = [x for x in sf.split_selfies(s)]
    k = random.randint(1,6)
    t2 = list(toks)
    for _ in range(k):
        t2.insert(random.randint(0,len(t2)), '[nop]')
    s2 = ''.join(t2)
    if outcome(s)!=outcome(s2): bad['nop']+=1; ex['nop']=(s,s2)
    # via encoding utils
    alpha = sorted(set(toks)|{'[nop]','.'}); stoi={c:i for i,c in enumerate(alpha)}; itos={i:c for c,i in stoi.items()}
    lab = sf.selfies_to_encoding(s, stoi, len(toks)+random.randint(-2,5), 'label')
    s3 = sf.encoding_to_selfies(lab, itos, 'label')
    if outcome(s)!=outcome(s3): bad['pad']+=1; ex['pad']=(s,s3)
print(bad, ex)
