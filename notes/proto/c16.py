import itertools, sys
sys.path.insert(0,'/tmp/proto')
from selfies.grammar_rules import get_index_from_selfies, get_selfies_from_index
import refderive as R
import selfies as sf, refsmiles
bad=0
for n in range(16**3):
    d = get_selfies_from_index(n)
    exp=[]; m=n
    while True:
        exp.append(R.INDEX[m%16]); m//=16
        if m==0: break
    exp=exp[::-1]
    if d!=exp or len(d)>3 or get_index_from_selfies(*d)!=n: bad+=1
syms = R.INDEX+["[F]","[Xx]","[nop]",None]
for t in itertools.product(syms, repeat=3):
    v = sum(R.IDX.get(x,0)*16**(2-i) for i,x in enumerate(t))
    if get_index_from_selfies(*t)!=v: bad+=1
print('function-level bad', bad)
# API-level decoder sample
c = sf.get_preset_constraints("hypervalent"); c.update({"?": 12}); sf.set_semantic_constraints(c)
bad=0
for n in list(range(0,40))+[254,255,256,257,4094,4095]:
    digits = get_selfies_from_index(n)
    L=len(digits)
    k = n+2+3
    s = "[C]"*k + "[Ring%d]"%L + "".join(digits)
    m = refsmiles.read(sf.decoder(s))
    rb = list(m.ring_bonds)
    exp = (k-1-(n+1), k-1)
    if n==0:
        ok = m.bonds[(k-2,k-1)]==2
    else: ok = rb==[exp]
    if not ok: bad+=1; print('decoder', n, rb, exp)
    # encoder: ring of span n+2 atoms -> Q = n
    smi = "C1"+"C"*(n+1)+"1" if n>=1 else None
    if smi:
        e = sf.encoder(smi)
        toks = list(sf.split_selfies(e))
        i = [j for j,t in enumerate(toks) if 'Ring' in t and j>=n+2][0]
        if toks[i]!="[Ring%d]"%L or toks[i+1:i+1+L]!=digits: bad+=1; print('encoder',n,toks[i:i+4])
print('api-level bad', bad)
