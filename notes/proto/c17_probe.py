import selfies as sf, random, collections, sys, re
from selfies.constants import INDEX_ALPHABET
random.seed(int(sys.argv[1]))
alpha = sorted(sf.get_semantic_robust_alphabet())
atoms = [a for a in alpha if 'Ring' not in a and 'Branch' not in a]
poly = [a for a in atoms if a.strip('[]=#') in ('C','N','P','S','B')]
stats = collections.Counter(); ex = {}
def note(k, s):
    stats[k]+=1
    if k not in ex or len(s)<len(ex[k]): ex[k]=s
for t in range(int(sys.argv[2])):
    n = random.randint(1, 25)
    toks = []
    for _ in range(n):
        r = random.random()
        if r < 0.5: toks.append(random.choice(poly))
        elif r < 0.6: toks.append(random.choice(atoms))
        elif r < 0.72:
            L = random.choice([1,1,1,2]); toks.append('['+random.choice(['','=','#'])+'Ring%d]'%L)
        elif r < 0.85:
            L = random.choice([1,1,1,2]); toks.append('['+random.choice(['','=','#'])+'Branch%d]'%L)
        elif r < 0.93: toks.append(random.choice(INDEX_ALPHABET[:5]))
        elif r < 0.97: toks.append('[nop]')
        else: toks.append('.')
    s = ''.join(toks)
    s = re.sub(r'\.+','.',s).strip('.')
    plain = sf.decoder(s)
    smi, am = sf.decoder(s, attribute=True)
    stats['n']+=1
    if smi != plain: note('attr_changes_result', s)
    intoks = [x for x in sf.split_selfies(s) if x not in ('.','[nop]')]
    multi = '.' in s
    for a in am:
        if smi[a.index-len(a.token)+1:a.index+1] != a.token or a.index-len(a.token)+1<0:
            note('out_idx_bad multi=%s'%multi, s)
        for c in (a.attribution or []):
            if not (0<=c.index<len(intoks)) or intoks[c.index]!=c.token:
                note('in_idx_bad multi=%s'%multi, s)
print(stats); print(ex)
