import sys, random, collections, re
sys.path.insert(0, "/tmp/proto")
import selfies as sf
import refderive as R, refsmiles
src = open('/tmp/proto/rand_c02.py').read().split('if __name__')[0].replace('random.seed(int(sys.argv[1]))','').replace('N = int(sys.argv[2])','')
exec(src)
random.seed(int(sys.argv[1])); N=int(sys.argv[2])

def derive_attr(s, table):
    """returns list per atom: (sym_index, [enclosing branch sym indices]) using R semantics"""
    frags = R.tokens(s)
    out=[]; caps=[]; natoms=[0]
    offset=0
    def run(it, budget, state, prev, stack):
        used=0
        while state is not None and used<budget:
            nx = next(it, None)
            if nx is None: break
            i, sym = nx; used+=1
            mb=R.BRANCH.match(sym); mr=R.RING.match(sym)
            if mb:
                M=R.ORDER[mb.group(1)]; L=int(mb.group(2))
                if state<=1: continue
                n=min(state-1,M); j=state-n
                q=0
                for _ in range(L):
                    t=next(it,None); q=q*16+R.IDX.get(t[1] if t else None,0)
                used+=L+run(it,q+1,n,prev,stack+[(i,sym)])
                state=j
            elif mr:
                pre=mr.group(1); L=int(mr.group(2))
                order=1 if len(pre)==2 else R.ORDER[pre]
                if state==0: continue
                o=min(order,state); left=state-o
                for _ in range(L): next(it,None)
                used+=L
                state=left if left else None
            elif sym=="[epsilon]":
                state=0 if state==0 else None
            else:
                pa=R.parse_atom_symbol(sym,table)
                if pa is None: raise R.Reject(sym)
                b,atom,cap=pa
                if state==0:
                    out.append((i,sym,stack)); prev=len(out)-1; state=cap if cap else None
                else:
                    mu=min(R.ORDER[b],cap,state)
                    if mu==0: state=None
                    else:
                        out.append((i,sym,stack)); prev=len(out)-1
                        left=cap-mu; state=left if left else None
        while used<budget:
            if next(it,None) is None: break
            used+=1
        return used
    for frag in frags:
        it=iter([(offset+k,t) for k,t in enumerate(frag)])
        run(it,float('inf'),0,None,[])
        offset+=len(frag)
    return out
bad=collections.Counter(); ex={}
tab=sf.get_semantic_constraints()
for t in range(N):
    s = re.sub(r'\.+','.',rand_string()).strip('.')
    try: exp=derive_attr(s,tab)
    except R.Reject: continue
    try: smi,am=sf.decoder(s,attribute=True)
    except sf.DecoderError: bad['unexpected_err']+=1; continue
    m=refsmiles.read(smi)
    # atom tokens in output order: attribution entries whose token is an atom text; map by end index
    # compute end index of each atom token in smi using R1-like scan
    ends=[]; i=0
    while i<len(smi):
        c=smi[i]
        if c=='[': j=smi.index(']',i); ends.append(j); i=j+1
        elif smi[i:i+2] in('Cl','Br'): ends.append(i+1); i+=2
        elif c.isalpha(): ends.append(i); i+=1
        else: i+=1
    by_end={a.index:a for a in am if a.token and (a.token[0].isalpha() or a.token[0]=='[')}
    multi='.' in s
    for k,e in enumerate(ends):
        a=by_end.get(e)
        if a is None: bad['missing_atom_attr multi=%s'%multi]+=1; ex['miss']=(s,smi); continue
        got=[(x.index,x.token) for x in a.attribution]
        i_sym,sym,stack=exp[k]
        want=list(stack)+[(i_sym,sym)]
        if got!=want: bad['attr_mismatch multi=%s'%multi]+=1; ex['mm%s'%multi]=(s,smi,k,got,want)
print(bad); print(ex)
