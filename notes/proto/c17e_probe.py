import selfies as sf, random, collections, sys, re
import pandas as pd
random.seed(1)
c = sf.get_preset_constraints("hypervalent"); c.update({"P": 7, "P-1": 8, "P+1": 6, "?": 12}); sf.set_semantic_constraints(c)
smis = []
for f in ['custom_cases.csv','nonfullerene.csv','molnet/hiv.csv','molnet/clintox.csv','molnet/bbbp.csv']:
    df = pd.read_csv('/repo/tests/test_sets/'+f); l = list(df['smiles']); random.shuffle(l); smis += l[:800]
smis += ["C(C(F)Cl)Br","O.C(F)Cl","C(F)Cl","CC(C)C.CC(C)(C)C","C1CC1(F)Cl"]
stats = collections.Counter(); ex = {}
def note(k, s):
    stats[k]+=1
    if k not in ex or len(s)<len(ex[k]): ex[k]=s
def depth_map(toks):
    pass
for s in smis:
    s = s.strip()
    try:
        plain = sf.encoder(s); sel, am = sf.encoder(s, attribute=True)
    except sf.EncoderError: continue
    stats['n']+=1
    if plain != sel: note('attr_changes', s)
    toks = [t for t in sf.split_selfies(sel) if t != '.']
    # independent smiles tokenization: bond separate from atom; ring w/ bond one token; dots ignored
    stoks = []
    i=0
    while i < len(s):
        ch = s[i]
        if ch == '.': i+=1; continue
        b = None
        if ch in '-=#/\\:':
            b = ch; i+=1; ch = s[i]
        if ch == '[':
            j = s.index(']', i); tok = s[i:j+1]; kind='atom'
        elif s[i:i+2] in ('Br','Cl'): tok = s[i:i+2]; kind='atom'
        elif ch.isalpha(): tok = ch; kind='atom'
        elif ch in '()': tok = ch; kind='br'
        elif ch == '%': tok = s[i:i+3]; kind='ring'
        elif ch.isdigit(): tok = ch; kind='ring'
        else: raise Exception(s)
        if kind=='atom' and b: stoks.append(('bond', b))
        stoks.append((kind, tok, b))
        i += len(tok)
    atom_positions = [k for k,t in enumerate(stoks) if t[0]=='atom']
    sel_atom_pos = [k for k,t in enumerate(toks) if 'Ring' not in t and 'Branch' not in t]
    # atoms symbols among attribution maps: those with token not ring/branch and attribution referencing atom... ambiguous due index symbols; use maps in which attribution token is atom token
    multi = '.' in s
    nested = False
    seen = {}
    for a in am:
        if not a.attribution: continue
        if 'Ring' in a.token or 'Branch' in a.token: continue
        seen.setdefault(a.index, []).append(a)
    # real atoms: SELFIES atom symbols correspond in order to SMILES atoms. But index symbols look like atoms. So identify by derivation: skip
    # check: for k-th SMILES atom, is there an attribution map whose attribution == (atom_positions[k], token)?
    atom_maps = [a for a in am if a.attribution and not ('Ring' in a.token or 'Branch' in a.token)]
    # candidates: atom symbols are those maps whose token equals encoder atom symbol; index symbols' maps have attribution of bond
    ok_smiles_side = True
    amap_by_smi = collections.defaultdict(list)
    for a in atom_maps: amap_by_smi[(a.attribution[0].index, a.attribution[0].token)].append(a)
    for k,pos in enumerate(atom_positions):
        key = (pos, stoks[pos][1])
        if key not in amap_by_smi: note('smiles_side_missing multi=%s'%multi, s); continue
        # among maps, one should have index where toks[index]==token and is the real atom symbol
        good = [a for a in amap_by_smi[key] if 0<=a.index<len(toks) and toks[a.index]==a.token]
        if not good: note('selfies_idx_bad multi=%s'%multi, s)
print(stats); print(ex)
