import sys, random, collections, re, warnings
warnings.simplefilter('ignore')
sys.path.insert(0, "/tmp/proto")
import selfies as sf
src = open('/tmp/proto/rand_c02.py').read().split('if __name__')[0].replace('random.seed(int(sys.argv[1]))','').replace('N = int(sys.argv[2])','')
exec(src)
random.seed(int(sys.argv[1])); N=int(sys.argv[2])
import refderive
def legacy(sym):
    m = refderive.BRANCH.match(sym)
    if m: return "[Branch%s_%d]" % (m.group(2), {"":1,"=":2,"#":3}[m.group(1)])
    m = refderive.RING.match(sym)
    if m:
        pre, L = m.groups()
        if pre in ("=","#"): return "[Expl%sRing%s]"%(pre,L)
        if pre == "//": return "[Expl/Ring%s]"%L
        if pre == "\\\\": return "[Expl\\Ring%s]"%L
        return None
    m = refderive.ATOM.match(sym)
    if m:
        b, iso, el, chir, h, ch = m.groups()
        body = sym[1+len(b):-1]
        if body in refderive.ORGANIC: return None
        hs = "" if h in (None,"0") else (random.choice(["H","H1"]) if h=="1" else "H"+h)
        if ch:
            n = int(ch[1:]); cs = random.choice([ch, ch[0]*n if n<4 else ch, ch if n>1 else ch[0]])
        else: cs = ""
        if el not in refderive.ELEMENTS: return None
        return "[%s%s%s%s%s%sexpl]"%(b,iso,el,chir,hs,cs)
    return None
def outcome(s, **kw):
    try: return ('ok', sf.decoder(s, **kw))
    except sf.DecoderError: return ('err',)
bad=collections.Counter(); ex={}; st=collections.Counter()
for t in range(N):
    s = re.sub(r'\.+','.',rand_string()).strip('.')
    toks = list(sf.split_selfies(s))
    # avoid [CH0]-style: modern [CH0] legacy is [Cexpl]
    leg = []; n_leg=0
    for tk in toks:
        l = legacy(tk) if random.random()<0.4 else None
        if l: leg.append(l); n_leg+=1
        else: leg.append(tk)
    s_leg = ''.join(leg)
    st['legacy' if n_leg else 'plain']+=1
    if outcome(s_leg, compatible=True)!=outcome(s): bad['compat']+=1; ex['compat']=(s_leg,s)
    if outcome(s, compatible=True)!=outcome(s): bad['conservative']+=1; ex['cons']=(s,)
print(st,bad,ex)
