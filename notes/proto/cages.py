import sys, random, collections, itertools, math
sys.path.insert(0, "/tmp/proto")
import selfies as sf
import refsmiles
c = sf.get_preset_constraints("hypervalent"); c.update({"?": 12}); sf.set_semantic_constraints(c)
def icosahedron():
    phi=(1+5**.5)/2; pts=[]
    for a in (-1,1):
        for b in (-phi,phi):
            pts += [(0,a,b),(a,b,0),(b,0,a)]
    adj={i:set() for i in range(12)}
    for i,j in itertools.combinations(range(12),2):
        if abs(math.dist(pts[i],pts[j])-2)<1e-6: adj[i].add(j); adj[j].add(i)
    return adj
def tetra(): return {i:{j for j in range(4) if j!=i} for i in range(4)}
def octa(): return {i:{j for j in range(6) if j!=i and j!=(i+3)%6} for i in range(6)}
def truncate(P):
    V=[(u,v) for u in P for v in P[u]]; idx={p:i for i,p in enumerate(V)}
    adj={i:set() for i in range(len(V))}
    for (u,v) in V:
        adj[idx[(u,v)]].add(idx[(v,u)])
        for w in P[u]:
            if w!=v and w in P[v]: adj[idx[(u,v)]].add(idx[(u,w)])
    return adj
def prism(k):
    adj={i:set() for i in range(2*k)}
    for i in range(k):
        for a,b in ((i,(i+1)%k),(k+i,k+(i+1)%k),(i,k+i)): adj[a].add(b); adj[b].add(a)
    return adj
def petersen():
    adj={i:set() for i in range(10)}
    for i in range(5):
        for a,b in ((i,(i+1)%5),(i,i+5),(5+i,5+(i+2)%5)): adj[a].add(b); adj[b].add(a)
    return adj
def dodeca():
    I=icosahedron(); faces=[f for f in itertools.combinations(range(12),3) if all(b in I[a] for a,b in itertools.combinations(f,2))]
    adj={i:set() for i in range(len(faces))}
    for i,j in itertools.combinations(range(len(faces)),2):
        if len(set(faces[i])&set(faces[j]))==2: adj[i].add(j); adj[j].add(i)
    return adj
G={'C60':truncate(icosahedron()),'trunc_tetra':truncate(tetra()),'trunc_octa':truncate(octa()),'prism3':prism(3),'prism5':prism(5),'prism7':prism(7),'petersen':petersen(),'C20':dodeca(),'K4':tetra()}
for k,g in G.items(): assert all(len(v)==3 for v in g.values()),k
rng=random.Random(int(sys.argv[1])); N=int(sys.argv[2])
def write(adj):
    n=len(adj); visited=set(); pieces=[]; closing={}; events={x:[] for x in adj}; plan={}
    sys.setrecursionlimit(10000)
    def rec(x,parent):
        visited.add(x)
        nb=[y for y in adj[x] if y!=parent]; rng.shuffle(nb); plan[x]=[]
        for y in nb:
            if y in visited:
                key=frozenset((x,y))
                if key not in closing: closing[key]=(y,x)
        for y in nb:
            if y in visited: continue
            plan[x].append(y); rec(y,x)
    root=rng.randrange(n); rec(root,None)
    for key,(op,cl) in closing.items(): events[op].append(key); events[cl].append(key)
    for x in events: rng.shuffle(events[x])
    free=list(range(1,100)); lab={}
    def emit(x):
        pieces.append('c')
        for key in events[x]:
            if key not in lab:
                l=free.pop(0); lab[key]=l
            else:
                l=lab[key]; free.append(l); free.sort()
            pieces.append(str(l) if l<10 else '%%%02d'%l)
        kids=plan[x]
        for i,y in enumerate(kids):
            last=i==len(kids)-1
            if not last: pieces.append('(')
            emit(y)
            if not last: pieces.append(')')
    emit(root); return ''.join(pieces)
for name,g in [(k,G[k]) for k in sys.argv[3].split(',')]:
    st=collections.Counter(); ex={}
    for t in range(N):
        smi=write(g)
        for strict in (True,False):
            try: e=sf.encoder(smi,strict=strict)
            except sf.EncoderError as x: st['EncoderError strict=%s'%strict]+=1; ex.setdefault('err',smi); continue
            d=sf.decoder(e); out=refsmiles.read(d)
            dbl=collections.Counter()
            for (i,j),o in out.bonds.items():
                if o==2: dbl[i]+=1; dbl[j]+=1
            if len(out.bonds)!=3*len(g)//2 or any(dbl[i]!=1 for i in range(len(g))): st['wrong strict=%s'%strict]+=1; ex.setdefault('wrong',smi)
            else: st['ok']+=1
    print(name,len(g),dict(st), {k:v[:80] for k,v in ex.items()})
