import sys, itertools, collections, time
sys.path.insert(0, "/tmp/proto")
import selfies as sf
import refsmiles, refderive

def ref_view(rm):
    atoms = [tuple(a[k] for k in ("el", "iso", "chir", "h", "charge")) for a in rm.atoms]
    bonds = dict(rm.bonds)
    marks = {}
    for k, c in rm.chain_mark.items():
        if bonds[k] == 1:
            marks[k] = ("chain", c)
    for k, (l, r) in rm.ring_mark.items():
        if bonds[k] == 1 and (l or r):
            marks[k] = ("ring", l, r)
    nbrs = []
    for i, a in enumerate(rm.atoms):
        l = []
        if rm.parent[i] is not None:
            l.append(rm.parent[i])
        if a["chir"] and a["h"]:
            l.append("H")
        l += rm.rings_at[i] + rm.children[i]
        nbrs.append(l)
    return atoms, bonds, marks, nbrs, list(rm.roots)

def out_view(m):
    atoms = [tuple(a[k] for k in ("el", "iso", "chir", "h", "charge")) for a in m.atoms]
    marks = {}
    for k, d in m.marks.items():
        if "chain" in d:
            marks[k] = ("chain", d["chain"])
        elif d.get("lo") or d.get("hi"):
            marks[k] = ("ring", d.get("lo"), d.get("hi"))
    return atoms, dict(m.bonds), marks, [list(x) for x in m.nbrs], list(m.roots)

def check(s, table):
    try:
        exp = ref_view(refderive.derive(s, table))
        exp_err = False
    except refderive.Reject:
        exp_err = True
    try:
        out = sf.decoder(s)
        got_err = False
    except sf.DecoderError:
        got_err = True
    if exp_err or got_err:
        return None if exp_err == got_err else ("error_mismatch", exp_err, got_err)
    try:
        got = out_view(refsmiles.read(out))
    except refsmiles.SmilesError as e:
        return ("unparseable", e.kind, out)
    for name, a, b in zip(("atoms", "bonds", "marks", "nbrs", "roots"), exp, got):
        if a != b:
            return (name, a, b, out)
    return None

if __name__ == "__main__":
    table = sf.get_semantic_constraints()
    alpha = sys.argv[1].split(",")
    L = int(sys.argv[2])
    t = time.time(); n = 0
    bad = collections.Counter(); ex = {}
    for k in range(0, L + 1):
        for tup in itertools.product(alpha, repeat=k):
            s = "".join(tup)
            if ".." in s: pass
            n += 1
            r = check(s, table)
            if r is not None:
                bad[r[0]] += 1
                if r[0] not in ex or len(s) < len(ex[r[0]][0]):
                    ex[r[0]] = (s, r)
    print(n, time.time() - t, bad)
    for k, v in ex.items(): print(k, v)
