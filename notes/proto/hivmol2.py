import sys; sys.path.insert(0,'/tmp/proto')
import selfies as sf, refsmiles, collections
from rdkit import Chem
s = open('/tmp/mut/tests/error_logs/hiv.csv').read().split('\n')[1].split(',')[0]
constraints = sf.get_preset_constraints("hypervalent"); constraints.update({"?": 12}); sf.set_semantic_constraints(constraints)
d = sf.decoder(sf.encoder(s))
a = refsmiles.read(s); b = refsmiles.read(d)
print(len(a.atoms), len(b.atoms), set(a.bonds)==set(b.bonds))
dbl = collections.Counter()
for k,o in b.bonds.items():
    if a.bonds[k]==1.5:
        if o==2: dbl[k[0]]+=1; dbl[k[1]]+=1
    elif a.bonds[k]!=o: print('nonarom changed',k)
arom=[i for i,x in enumerate(a.atoms) if x['arom']]
print(len(arom), collections.Counter(dbl[i] for i in arom))
print([ (a.atoms[i]['el'], sum(1 for k in a.bonds if i in k)) for i in arom if dbl[i]==0])
m1=Chem.MolFromSmiles(s); m2=Chem.MolFromSmiles(d)
print(Chem.MolToSmiles(m1)); print(Chem.MolToSmiles(m2))
