import sys, time, collections
sys.path.insert(0,'/tmp/proto')
import hypothesis
from hypothesis import given, settings, strategies as st, seed, HealthCheck, Phase
import selfies as sf
import refderive as R
from cmp_c02 import check
ATOMS = ["[C]","[=C]","[#C]","[N]","[=N]","[#N]","[O]","[=O]","[S]","[=S]","[P]","[B]","[F]","[Cl]","[C@@H1]","[NH1]","[N+1]","[O-1]","[13C]","[/C]","[\\C]"]
BR = ["[Branch1]","[=Branch1]","[#Branch1]","[Branch2]"]
RG = ["[Ring1]","[=Ring1]","[#Ring1]","[Ring2]","[-/Ring1]","[\\/Ring1]"]
@st.composite
def live_string(draw):
    n = draw(st.integers(1, 60))
    toks=[]
    kinds = draw(st.lists(st.integers(0,99), min_size=n, max_size=n))
    picks = draw(st.lists(st.integers(0,10**6), min_size=n, max_size=n))
    for k,p in zip(kinds,picks):
        if k<55: toks.append(ATOMS[p%12] if k<45 else ATOMS[p%len(ATOMS)])
        elif k<70: toks.append(BR[p%len(BR)]); toks.append(R.INDEX[(p//7)%8])
        elif k<88: toks.append(RG[p%len(RG)]); toks.append(R.INDEX[(p//7)%6])
        elif k<94: toks.append(R.INDEX[p%16])
        elif k<96: toks.append("[nop]")
        elif k<97: toks.append("[epsilon]")
        else: toks.append(".")
    return "".join(toks)
tab = sf.get_semantic_constraints()
cnt=collections.Counter()
@seed(1)
@settings(max_examples=int(sys.argv[1]), database=None, deadline=None, suppress_health_check=list(HealthCheck), phases=[Phase.generate])
@given(live_string())
def test(s):
    cnt['n']+=1
    r = check(s, tab)
    out = None
    try: out = sf.decoder(s)
    except sf.DecoderError: cnt['err']+=1
    if out and out.count('1')>0: cnt['ring']+=1
    if out and '(' in out: cnt['branch']+=1
    if out: cnt['len%d'%(min(len(out)//10,5))]+=1
    assert r is None, (s, r)
t=time.time(); test(); dt=time.time()-t
print(cnt, '%.1f ex/s'%(cnt['n']/dt))
