import sys, collections, itertools
sys.path.insert(0, "/tmp/proto")
import selfies as sf, refsmiles
from rdkit import Chem
from rdkit import RDLogger; RDLogger.DisableLog('rdApp.*')
c = sf.get_preset_constraints("hypervalent"); c.update({"?": 12}); sf.set_semantic_constraints(c)
V = {('C',0):4,('C',1):3,('C',-1):3,('N',0):3,('N',1):4,('N',-1):2,('O',0):2,('O',1):3,('O',-1):1,('S',0):2,('S',1):3,('S',-1):1,('P',0):3,('P',1):4,('P',-1):2,('B',0):3,('B',-1):4,('B',1):2}
def needs(el,q,h,sig):
    v = V.get((el,q))
    if v is None: return None
    if sig+h+1==v: return True
    if sig+h==v: return False
    return None
kinds=[]
for el in 'cnosbp':
    for q in ('','+','-'):
        for h in ('','H'):
            for sub in ('','(C)'):
                kinds.append('[%s%s%s]%s'%(el,h,q,sub))
kinds += ['c','n','o','s','p','b','c(C)','n(C)','c(=O)','p(C)','b(C)']
rows=[]
for k in kinds:
    for ring in (5,6,7):
        # ring: special atom + (ring-1) 'c'
        j = k.index(']')+1 if k.startswith('[') else 1
        atom, sub = k[:j], k[j:]
        smi = atom+'1'+sub+'c'*(ring-1)+'1'
        a = refsmiles.read(smi)
        at = a.atoms[0]; sig = sum(1 if o==1.5 else o for kk,o in a.bonds.items() if 0 in kk)
        h = at['h'] if at['h'] is not None else (0 if at['el']!='C' else None)
        # implicit-H aromatic atoms: organic-subset lower-case: h implied so that normal valence is met: treat: needs = (sig + 1 == V) else if sig == V no; c with 2 sigma -> 1 implicit H
        if at['h'] is None:
            v = V[(at['el'],0)]
            exp = True if sig < v else False   # c(2σ):H implied, needs pi; n 2σ: needs; o 2σ: no
            if at['el'] in 'NPB' and sig==2: exp=True
            if at['el'] in 'OS' and sig==2: exp=False
        else:
            exp = needs(at['el'],at['charge'],at['h'],sig)
        n_need_others = ring-1
        # expected acceptance: total needs-pi count even & path structure: ring: if special needs pi -> ring all need: even ring ok; else path of ring-1 atoms: needs even
        if exp is None: exp_acc=None
        else: exp_acc = (ring%2==0) if exp else ((ring-1)%2==0)
        try:
            e = sf.encoder(smi); d = sf.decoder(e); b = refsmiles.read(d)
            dbl0 = sum(1 for kk,o in b.bonds.items() if 0 in kk and o==2 and a.bonds[kk]==1.5)
            got = ('acc', dbl0)
        except sf.EncoderError as x:
            got = ('rej', str(x).strip().split('\n')[0][:30])
        m = Chem.MolFromSmiles(smi)
        rd = None
        if m is not None:
            try:
                Chem.Kekulize(m, clearAromaticFlags=True)
                rd = sum(1 for bd in m.GetAtomWithIdx(0).GetBonds() if bd.GetBondTypeAsDouble()==2 and bd.IsInRing())
            except Exception: rd='kekfail'
        flag = ''
        if exp_acc is not None:
            if (got[0]=='acc')!=exp_acc: flag='ACCEPT-MISMATCH'
            elif got[0]=='acc' and got[1]!=(1 if exp else 0): flag='PI-MISMATCH'
        rows.append((smi, exp, exp_acc, got, rd, flag))
for r in rows:
    if r[5] or True: print(*r)
