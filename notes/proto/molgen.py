"""Scratch prototype: abstract molecule + random spelling writer (ground truth known)."""
import random

ORGANIC_CAP = {"C": 4, "N": 3, "O": 2, "S": 6, "P": 5, "B": 3, "F": 1, "Cl": 1, "Br": 1, "I": 1}


def parity(seq_a, seq_b):
    """parity (0 even / 1 odd) of the permutation taking seq_a to seq_b"""
    pos = {x: i for i, x in enumerate(seq_b)}
    p = [pos[x] for x in seq_a]
    inv = 0
    for i in range(len(p)):
        for j in range(i + 1, len(p)):
            if p[i] > p[j]:
                inv += 1
    return inv % 2


class AMol:
    """abstract molecule: nodes 0..n-1 with adjacency, independent of spelling"""

    def __init__(self):
        self.atoms = []   # dict(el, iso, h (None=implicit), charge, chiral(bool), hand (0/1) )
        self.adj = {}     # node -> list of nbr nodes
        self.order = {}   # frozenset({a,b}) -> order
        self.mark = {}    # (a,b) directed: mark as seen going a->b  ('/' or '\\'); store one direction


def rand_mol(rng, n_max=14):
    m = AMol()
    n = rng.randint(1, n_max)
    free = []
    for i in range(n):
        el = rng.choice(["C"] * 6 + ["N", "N", "O", "S", "P", "B"])
        m.atoms.append(dict(el=el, iso=None, h=None, charge=0, chiral=False, hand=0))
        m.adj[i] = []
        free.append(ORGANIC_CAP[el])
    # tree
    for i in range(1, n):
        cands = [j for j in range(i) if free[j] >= 1]
        if not cands:
            # start new fragment
            continue
        j = rng.choice(cands[-4:]) if rng.random() < 0.7 else rng.choice(cands)
        o = 1
        if rng.random() < 0.25 and free[j] >= 2 and free[i] >= 2:
            o = 2
        m.adj[i].append(j); m.adj[j].append(i)
        m.order[frozenset((i, j))] = o
        free[i] -= o; free[j] -= o
    # rings
    for _ in range(rng.randint(0, 8)):
        a, b = rng.randrange(n), rng.randrange(n)
        if a == b or b in m.adj[a] or free[a] < 1 or free[b] < 1:
            continue
        if not connected(m, a, b):
            continue
        o = 2 if (rng.random() < 0.15 and free[a] >= 2 and free[b] >= 2) else 1
        m.adj[a].append(b); m.adj[b].append(a)
        m.order[frozenset((a, b))] = o
        free[a] -= o; free[b] -= o
    # decorations: bracket atoms
    for i, a in enumerate(m.atoms):
        r = rng.random()
        deg = len(m.adj[i])
        if r < 0.25 and a["el"] == "C" and deg >= 2 and free[i] >= 1:
            # chiral: needs explicit bracket; h = remaining valence for C
            bos = sum(m.order[frozenset((i, j))] for j in m.adj[i])
            if all(m.order[frozenset((i, j))] == 1 for j in m.adj[i]) and deg in (3, 4):
                a["h"] = 4 - bos
                a["chiral"] = True
                a["hand"] = rng.randrange(2)
        elif r < 0.3:
            a["iso"] = rng.choice([2, 13, 14, 15, 18])
            a["h"] = max(0, min(free[i], rng.randint(0, 2)))
        elif r < 0.35 and a["el"] == "N" and free[i] == 0 and False:
            pass
    # stereo marks on single bonds next to double bonds
    for key, o in list(m.order.items()):
        if o == 2:
            a, b = tuple(key)
            for x, y in ((a, b), (b, a)):
                for z in m.adj[x]:
                    if z != y and m.order[frozenset((x, z))] == 1 and rng.random() < 0.5:
                        if (x, z) not in m.mark and (z, x) not in m.mark:
                            m.mark[(x, z)] = rng.choice("/\\")
    return m


def connected(m, a, b):
    seen = {a}; st = [a]
    while st:
        x = st.pop()
        for y in m.adj[x]:
            if y not in seen:
                seen.add(y); st.append(y)
    return b in seen


def flip(c):
    return {"/": "\\", "\\": "/"}[c]


def mark_dir(m, a, b):
    """mark as seen walking a->b, or None"""
    if (a, b) in m.mark:
        return m.mark[(a, b)]
    if (b, a) in m.mark:
        return flip(m.mark[(b, a)])
    return None


def write(m, rng, variants=True):
    """random spelling. returns smiles, order (list: written index -> node)"""
    n = len(m.atoms)
    visited = set()
    written = []          # node order
    out = []
    ring_label = {}       # frozenset -> label str
    labels_in_use = set()
    # First pass: decide DFS tree + ring closures with a random traversal
    def dfs_plan(root):
        plan = {}
        order = []
        stack = [(root, None)]
        # recursive to keep it simple
        def rec(x, parent):
            visited.add(x)
            order.append(x)
            nb = [y for y in m.adj[x] if y != parent]
            rng.shuffle(nb)
            kids = []
            rings = []
            for y in nb:
                if y in visited:
                    # ring closure: either opening already registered (y opened to x) or will be
                    rings.append(y)
                else:
                    kids.append(y)
            plan[x] = dict(parent=parent, kids=[], rings=[])
            # ring bonds to visited nodes: y is ancestor (already written) -> closing here
            for y in rings:
                if frozenset((x, y)) not in closing:
                    closing[frozenset((x, y))] = (y, x)   # opened at y, closed at x
            for y in kids:
                if y in visited:
                    continue  # became visited through another branch -> ring handled there
                plan[x]["kids"].append(y)
                rec(y, x)
        rec(root, None)
        return plan, order
    closing = {}
    smiles_parts = []
    all_order = []
    plans = {}
    roots = []
    nodes = list(range(n))
    start_nodes = nodes[:]
    rng.shuffle(start_nodes)
    for r in start_nodes:
        if r in visited:
            continue
        plan, order = dfs_plan(r)
        plans.update(plan)
        roots.append(r)
        all_order += order
    index_of = {node: i for i, node in enumerate(all_order)}
    # ring digit order at each atom: random interleave of opens and closes
    ring_events = {x: [] for x in range(n)}
    for key, (op, cl) in closing.items():
        ring_events[op].append(key)
        ring_events[cl].append(key)
    for x in ring_events:
        rng.shuffle(ring_events[x])
    # emit
    nbr_written = {x: [] for x in range(n)}   # written neighbour order (nodes / 'H')
    free_labels = list(range(1, 100))
    label_of = {}
    def atom_text(x, chir_tag):
        a = m.atoms[x]
        if a["h"] is None and a["iso"] is None and a["charge"] == 0 and not chir_tag:
            return a["el"]
        s = "["
        if a["iso"] is not None:
            s += str(a["iso"])
        s += a["el"] + (chir_tag or "")
        h = a["h"] or 0
        if h == 1:
            s += rng.choice(["H", "H1"]) if variants else "H1"
        elif h > 1:
            s += "H%d" % h
        if a["charge"]:
            c = a["charge"]
            s += ("%+d" % c)
        return s + "]"
    pieces = []
    def emit(x, parent):
        # neighbour order as written: parent, H, ring digits in order, kids in order
        nb = []
        if parent is not None:
            nb.append(parent)
        a = m.atoms[x]
        if a["chiral"] and a["h"]:
            nb.append("H")
        for key in ring_events[x]:
            other = [y for y in key if y != x][0]
            nb.append(other)
        kids = plans[x]["kids"]
        nb += kids
        nbr_written[x] = nb
        tag = None
        if a["chiral"]:
            # abstract handedness: hand=0 means '@' when neighbours listed in canonical order
            canon = sorted([y for y in nb if y != "H"])
            canon = (["H"] if "H" in nb else []) + canon
            p = parity(nb, canon)
            tag = "@" if (a["hand"] ^ p) == 0 else "@@"
        pieces.append(atom_text(x, tag))
        for key in ring_events[x]:
            other = [y for y in key if y != x][0]
            o = m.order[key]
            opening = key not in label_of
            if opening:
                lab = rng.choice(free_labels[:3]) if rng.random() < 0.8 else rng.choice(free_labels)
                free_labels.remove(lab)
                label_of[key] = lab
            else:
                lab = label_of[key]
            bc = ""
            mk = mark_dir(m, x, other)
            if o == 2:
                # put '=' on open, close or both
                where = label_of.setdefault(("w", key), rng.choice(["open", "close", "both"]))
                if where == "both" or (where == "open") == opening:
                    bc = "="
            elif mk:
                bc = mk
            elif variants and rng.random() < 0.1:
                where = label_of.setdefault(("w", key), rng.choice(["open", "close", "both"]))
                if where == "both" or (where == "open") == opening:
                    bc = "-"
            txt = label_of.setdefault(("t", key), str(lab) if lab < 10 and rng.random() < 0.9 else "%%%02d" % lab)
            pieces.append(bc + txt)
            if not opening:
                free_labels.append(lab); free_labels.sort()
        for k, y in enumerate(kids):
            last = (k == len(kids) - 1)
            o = m.order[frozenset((x, y))]
            bc = {1: "", 2: "=", 3: "#"}[o]
            mk = mark_dir(m, x, y)
            if o == 1 and mk:
                bc = mk
            elif o == 1 and variants and rng.random() < 0.05:
                bc = "-"
            if not last:
                pieces.append("(")
            pieces.append(bc)
            emit(y, x)
            if not last:
                pieces.append(")")
    for k, r in enumerate(roots):
        if k:
            pieces.append(".")
        emit(r, None)
    return "".join(pieces), all_order, nbr_written
