import itertools, collections, random, sys
from selfies.utils.matching_utils import find_perfect_matching
from functools import lru_cache
def has_pm(n, adj):
    @lru_cache(None)
    def f(mask):
        if mask == (1<<n)-1: return True
        i = 0
        while mask>>i & 1: i+=1
        for j in adj[i]:
            if j>i and not (mask>>j &1):
                if f(mask|1<<i|1<<j): return True
        return False
    return f(0)
def valid(n, adj, m):
    if len(m)!=n: return False
    for i in range(n):
        j=m[i]
        if j is None or j==i or j not in adj[i] or m[j]!=i: return False
    return True
random.seed(int(sys.argv[1]))
stats=collections.Counter(); ex={}
for t in range(int(sys.argv[2])):
    n=random.choice([8,10,12,14,16])
    adj=[[] for _ in range(n)]
    ne=random.randint(n//2, int(1.5*n))
    for _ in range(ne):
        a,b=random.sample(range(n),2)
        if b in adj[a] or len(adj[a])>=3 or len(adj[b])>=3: continue
        adj[a].append(b); adj[b].append(a)
    for x in adj: random.shuffle(x)
    try:
        m=find_perfect_matching([list(x) for x in adj])
    except Exception as e:
        stats['exc '+type(e).__name__]+=1; ex.setdefault('exc',adj); continue
    exp=has_pm(n,adj)
    if m is None and exp: stats['false_reject']+=1; ex.setdefault('fr',adj)
    elif m is not None and not valid(n,adj,m): stats['invalid_matching']+=1; ex.setdefault('inv',(adj,m, exp))
    elif m is not None: stats['ok_match']+=1
    else: stats['ok_none']+=1
print(stats); print(ex)
