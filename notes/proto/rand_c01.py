import sys, random, collections
sys.path.insert(0, "/tmp/proto")
import selfies as sf
import refsmiles, refderive
import importlib.util
src = open('/tmp/proto/rand_c02.py').read().split('bad = collections.Counter()')[0].replace('random.seed(int(sys.argv[1]))','').replace('N = int(sys.argv[2])','')
exec(src)
random.seed(int(sys.argv[1])); N=int(sys.argv[2])
bad = collections.Counter(); ex={}
for i in range(N):
    t = rand_table(); sf.set_semantic_constraints(t); tab = sf.get_semantic_constraints()
    for _ in range(20):
        s = rand_string()
        try: out = sf.decoder(s)
        except sf.DecoderError: continue
        try: m = refsmiles.read(out)
        except refsmiles.SmilesError as e:
            bad['syntax '+e.kind]+=1; ex['syntax']=(s,out); continue
        for i,a in enumerate(m.atoms):
            cnt = sum(o for (x,y),o in m.bonds.items() if i in (x,y)) + (a['h'] or 0)
            cap = refderive.capacity(tab, a['el'], a['charge'])
            if cnt > cap:
                bad['valence']+=1; ex['valence']=(s,out,tab,i)
print(bad, ex)
