import sys, random, collections
sys.path.insert(0, "/tmp/proto")
import selfies as sf
from cmp_c02 import check
import refderive
random.seed(int(sys.argv[1]))
N = int(sys.argv[2])
atoms_pool = ["C","N","O","S","P","F","B","Cl","H","Fe","13C","C@","C@@H1","NH1","N+1","O-1","S+1","P-1","B-1","CH2","CH4","Xe-2","Sn+4","17O@@H1-2","C+1","C-1","Si","Se","te"]
bond = ["","","","=","#","/","\\"]
def rand_table():
    r = random.random()
    if r < 0.3: return random.choice(["default","octet_rule","hypervalent"])
    t = dict(sf.get_preset_constraints(random.choice(["default","octet_rule","hypervalent"])))
    for k in random.sample(list(t), random.randint(0,6)):
        t[k] = random.choice([0,1,2,3,4,5,6,8,9,12])
    for _ in range(random.randint(0,3)):
        t[random.choice(["Fe","Xe-2","Sn+4","Si","Se","O-2","C+2","Fe+3"])] = random.choice([0,1,2,4,7,10])
    t["?"] = random.choice([0,1,2,4,8,12])
    return t
def rand_string():
    n = random.randint(1, 40); toks=[]
    for _ in range(n):
        r = random.random()
        if r < 0.5: toks.append("[%s%s]" % (random.choice(bond), random.choice(atoms_pool[:8] if random.random()<0.7 else atoms_pool)))
        elif r < 0.65:
            L = random.choice([1,1,1,2,3]); pre = random.choice(["","=","#","-/","\\/","/-","//","\\\\"])
            toks.append("[%sRing%d]"%(pre,L))
        elif r < 0.82:
            L = random.choice([1,1,1,2,3]); toks.append("[%sBranch%d]"%(random.choice(["","=","#"]),L))
        elif r < 0.92: toks.append(random.choice(refderive.INDEX[:6]))
        elif r < 0.94: toks.append("[epsilon]")
        elif r < 0.96: toks.append("[nop]")
        elif r < 0.965: toks.append(random.choice(["[Xx]","[Branch4]","[Ring0]","[c]","[CH]"]))
        else: toks.append(".")
    return "".join(toks)
if __name__ != "__main__": raise SystemExit
bad = collections.Counter(); ex = {}
errs = 0
for i in range(N):
    t = rand_table(); sf.set_semantic_constraints(t); tab = sf.get_semantic_constraints()
    for _ in range(20):
        s = rand_string()
        r = check(s, tab)
        if r is not None:
            bad[r[0]] += 1
            if r[0] not in ex or len(s) < len(ex[r[0]][0]): ex[r[0]] = (s, tab if t not in ("default",) else "default", r)
print(bad)
for k,v in ex.items(): print(k, v)
