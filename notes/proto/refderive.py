"""Scratch prototype: independent rendering of docs/source/derivation.rst."""
import re

INDEX = ["[C]", "[Ring1]", "[Ring2]", "[Branch1]", "[=Branch1]", "[#Branch1]",
         "[Branch2]", "[=Branch2]", "[#Branch2]", "[O]", "[N]", "[=N]", "[=C]", "[#C]", "[S]", "[P]"]
IDX = {s: i for i, s in enumerate(INDEX)}
ORGANIC = {"B", "C", "N", "O", "S", "P", "F", "Cl", "Br", "I"}
ELEMENTS = set("""H He Li Be B C N O F Ne Na Mg Al Si P S Cl Ar K Ca Sc Ti V Cr Mn Fe Co Ni Cu Zn Ga Ge As Se Br Kr
Rb Sr Y Zr Nb Mo Tc Ru Rh Pd Ag Cd In Sn Sb Te I Xe Cs Ba La Ce Pr Nd Pm Sm Eu Gd Tb Dy Ho Er Tm Yb Lu Hf Ta W Re Os
Ir Pt Au Hg Tl Pb Bi Po At Rn Fr Ra Ac Th Pa U Np Pu Am Cm Bk Cf Es Fm Md No Lr Rf Db Sg Bh Hs Mt Ds Rg Cn Fl Lv""".split())
ATOM = re.compile(r"^\[([=#/\\]?)(\d*)([A-Z][a-z]?)(@{0,2})(?:H(\d))?((?:[+-][1-9]\d*)?)\]$")
BRANCH = re.compile(r"^\[([=#]?)Branch([123])\]$")
RING = re.compile(r"^\[([=#]?|[-/\\]{2})Ring([123])\]$")
ORDER = {"": 1, "/": 1, "\\": 1, "=": 2, "#": 3}


class Reject(Exception):
    pass


def capacity(table, el, charge):
    key = el if charge == 0 else "%s%+d" % (el, charge)
    return table[key] if key in table else table["?"]


def tokens(s):
    """split into fragments of bracket symbols; Reject on unclosed bracket"""
    frags = []
    for part in s.split("."):
        toks = []
        i = part.find("[")
        while 0 <= i < len(part):
            j = part.find("]", i + 1)
            if j < 0:
                raise Reject("unclosed")
            toks.append(part[i:j + 1])
            i = j + 1
            if i < len(part) and part[i] != "[":
                i = part.find("[", i)
        frags.append([t for t in toks if t != "[nop]"])
    return frags


class RMol:
    def __init__(self):
        self.atoms = []
        self.bonds = {}
        self.chain_mark = {}
        self.ring_mark = {}
        self.children = []
        self.parent = []
        self.rings_at = []
        self.roots = []

    def count(self, i):
        return sum(o for (a, b), o in self.bonds.items() if i in (a, b))


def parse_atom_symbol(sym, table):
    m = ATOM.match(sym)
    if not m:
        return None
    b, iso, el, chir, h, ch = m.groups()
    if el not in ELEMENTS:
        return None
    body = sym[1 + len(b):-1]
    if body in ORGANIC:
        atom = dict(el=el, iso=None, chir=None, h=None, charge=0)
    else:
        atom = dict(el=el, iso=(int(iso) if iso else None), chir=(chir or None),
                    h=(int(h) if h is not None else 0), charge=(int(ch) if ch else 0))
    cap = capacity(table, atom["el"], atom["charge"]) - (atom["h"] or 0)
    if cap < 0:
        return None
    return b, atom, cap


def derive(s, table):
    mol = RMol()
    rings = []
    caps = []
    for frag in tokens(s):
        it = iter(frag)
        _derive(it, mol, caps, rings, table, float("inf"), 0, None)
    # second pass
    for (l, r, order, (ls, rs)) in rings:
        if l == r:
            continue
        lfree = caps[l] - mol.count(l)
        rfree = caps[r] - mol.count(r)
        if lfree <= 0 or rfree <= 0:
            continue
        order = min(order, lfree, rfree)
        key = (l, r)
        if key in mol.bonds:
            mol.bonds[key] = min(mol.bonds[key] + order, 3)
        else:
            mol.bonds[key] = order
            mol.ring_mark[key] = (ls, rs)
            mol.rings_at[l].append(r)
            mol.rings_at[r].append(l)
    return mol


def _read_index(it, n):
    q = 0
    for _ in range(n):
        t = next(it, None)
        q = q * 16 + IDX.get(t, 0)
    return q


def _derive(it, mol, caps, rings, table, budget, state, prev):
    used = 0
    while state is not None and used < budget:
        sym = next(it, None)
        if sym is None:
            break
        used += 1
        mb = BRANCH.match(sym)
        mr = RING.match(sym)
        if mb:
            M = ORDER[mb.group(1)]
            L = int(mb.group(2))
            if state <= 1:
                continue
            n = min(state - 1, M)
            j = state - n
            q = _read_index(it, L)
            used += L + _derive(it, mol, caps, rings, table, q + 1, n, prev)
            state = j
        elif mr:
            pre = mr.group(1)
            L = int(mr.group(2))
            if len(pre) == 2:
                order = 1
                st = tuple(None if c == "-" else c for c in pre)
                if st == (None, None):
                    raise Reject(sym)
            else:
                order = ORDER[pre]
                st = (None, None)
            if state == 0:
                continue
            o = min(order, state)
            left = state - o
            q = _read_index(it, L)
            used += L
            rings.append((max(0, prev - (q + 1)), prev, o, st))
            state = left if left else None
        elif sym == "[epsilon]":
            state = 0 if state == 0 else None
        else:
            pa = parse_atom_symbol(sym, table)
            if pa is None:
                raise Reject(sym)
            b, atom, cap = pa
            if state == 0:
                idx = _add(mol, caps, atom, cap)
                mol.roots.append(idx)
                mol.parent[idx] = None
                prev = idx
                state = cap if cap else None
            else:
                mu = min(ORDER[b], cap, state)
                if mu == 0:
                    state = None  # pinned by tests: atom is dropped, derivation ends
                else:
                    idx = _add(mol, caps, atom, cap)
                    mol.bonds[(prev, idx)] = mu
                    if b in ("/", "\\") :
                        mol.chain_mark[(prev, idx)] = b
                    mol.children[prev].append(idx)
                    mol.parent[idx] = prev
                    prev = idx
                    left = cap - mu
                    state = left if left else None
    while used < budget:
        if next(it, None) is None:
            break
        used += 1
    return used


def _add(mol, caps, atom, cap):
    mol.atoms.append(atom)
    caps.append(cap)
    mol.children.append([])
    mol.parent.append(None)
    mol.rings_at.append([])
    return len(mol.atoms) - 1
