"""Scratch prototype: independent strict OpenSMILES-subset reader."""
import re

ORGANIC = {"B", "C", "N", "O", "S", "P", "F", "Cl", "Br", "I"}
AROM = {"b", "c", "n", "o", "s", "p"}
BRACKET = re.compile(
    r"^\[(\d*)([A-Z][a-z]?|[a-z][a-z]?)(@{0,2})(?:H(\d?))?((?:\+\d+|-\d+|\++|-+)?)(?::\d+)?\]$"
)
BOND_ORDER = {"-": 1, "/": 1, "\\": 1, "=": 2, "#": 3, ":": 1.5}


class SmilesError(Exception):
    def __init__(self, kind, pos=None):
        super().__init__("%s at %s" % (kind, pos))
        self.kind = kind
        self.pos = pos


class Mol:
    def __init__(self):
        self.atoms = []      # dict(el, iso, chir, h, charge, arom)
        self.bonds = {}      # (i,j) i<j -> order
        self.marks = {}      # (i,j) -> {'chain': c} or {'lo': c, 'hi': c} marks as written at each end
        self.nbrs = []       # written neighbour order per atom: entries int | 'H'
        self.roots = []
        self.ring_bonds = set()
        self.max_open = 0
        self.n_ring = 0


def parse_atom(tok):
    if tok in ORGANIC:
        return dict(el=tok, iso=None, chir=None, h=None, charge=0, arom=False)
    if tok in AROM:
        return dict(el=tok.capitalize(), iso=None, chir=None, h=None, charge=0, arom=True)
    m = BRACKET.match(tok)
    if not m:
        raise SmilesError("bad_atom")
    iso, el, chir, h, ch = m.groups()
    arom = el[0].islower()
    if m.group(0).find("H") >= 0 and "H" in tok[1 + len(iso) + len(el) + len(chir):]:
        hcount = 1 if h == "" or h is None else int(h)
        if h is None:
            hcount = 0
    else:
        hcount = 0
    # recompute h reliably
    rest = tok[1 + len(iso) + len(el) + len(chir):-1]
    if rest.startswith("H"):
        d = rest[1:2]
        hcount = int(d) if d.isdigit() else 1
    else:
        hcount = 0
    if ch == "":
        charge = 0
    elif ch[-1].isdigit():
        charge = int(ch[1:]) * (1 if ch[0] == "+" else -1)
    else:
        charge = len(ch) * (1 if ch[0] == "+" else -1)
    return dict(el=el.capitalize(), iso=(int(iso) if iso else None), chir=(chir or None),
                h=hcount, charge=charge, arom=arom)


def read(smiles):
    mol = Mol()
    if smiles == "":
        return mol
    i = 0
    n = len(smiles)
    prev = None          # previous atom index on current chain
    stack = []
    open_rings = {}      # label -> (atom, bondchar, slot index in nbrs)
    pending = None       # pending bond char
    expect_atom = True   # at start / after '(' / after '.', need atom (after bond)
    while i < n:
        c = smiles[i]
        if c in BOND_ORDER:
            if pending is not None:
                raise SmilesError("double_bond_symbol", i)
            if prev is None:
                raise SmilesError("bond_without_prev", i)
            pending = c
            i += 1
            continue
        if c == "(":
            if pending is not None or prev is None or expect_atom:
                raise SmilesError("bad_open_paren", i)
            stack.append(prev)
            expect_atom = True
            i += 1
            continue
        if c == ")":
            if pending is not None or not stack or expect_atom:
                raise SmilesError("bad_close_paren", i)
            prev = stack.pop()
            i += 1
            continue
        if c == ".":
            if pending is not None or expect_atom and prev is None and not mol.atoms:
                raise SmilesError("bad_dot", i)
            if stack:
                raise SmilesError("dot_in_branch", i)
            prev = None
            expect_atom = True
            i += 1
            continue
        if c.isdigit() or c == "%":
            if c == "%":
                lab = smiles[i + 1:i + 3]
                if len(lab) != 2 or not lab.isdigit():
                    raise SmilesError("bad_percent_label", i)
                # a third digit directly after %nn is a *separate* label in OpenSMILES
                i += 3
                label = int(lab)
            else:
                label = int(c)
                i += 1
            if prev is None or expect_atom:
                raise SmilesError("ring_without_atom", i)
            if label in open_rings:
                a, bc, slot = open_rings.pop(label)
                b = prev
                if a == b:
                    raise SmilesError("self_bond", i)
                key = (min(a, b), max(a, b))
                if key in mol.bonds:
                    raise SmilesError("duplicate_bond", i)
                o1 = BOND_ORDER.get(bc, None)
                o2 = BOND_ORDER.get(pending, None)
                if o1 is not None and o2 is not None and o1 != o2:
                    raise SmilesError("ring_bond_mismatch", i)
                order = o1 if o1 is not None else (o2 if o2 is not None else
                                                    (1.5 if mol.atoms[a]["arom"] and mol.atoms[b]["arom"] else 1))
                mol.bonds[key] = order
                mol.ring_bonds.add(key)
                mol.n_ring += 1
                mol.nbrs[a][slot] = b
                mol.nbrs[b].append(a)
                m = {}
                # a opened (a<b in reading order), marks as written at each end
                m["lo" if a < b else "hi"] = bc if bc in "/\\" and bc else None
                m["hi" if a < b else "lo"] = pending if pending in ("/", "\\") else None
                mol.marks[key] = m
            else:
                mol.nbrs[prev].append(None)
                open_rings[label] = (prev, pending or "", len(mol.nbrs[prev]) - 1)
                mol.max_open = max(mol.max_open, len(open_rings))
            pending = None
            continue
        # atom
        if c == "[":
            j = smiles.find("]", i)
            if j < 0:
                raise SmilesError("unclosed_bracket", i)
            tok = smiles[i:j + 1]
        elif smiles[i:i + 2] in ("Cl", "Br"):
            tok = smiles[i:i + 2]
        else:
            tok = c
        atom = parse_atom(tok)
        idx = len(mol.atoms)
        mol.atoms.append(atom)
        mol.nbrs.append([])
        if prev is None:
            if pending is not None:
                raise SmilesError("bond_without_prev", i)
            mol.roots.append(idx)
        else:
            order = BOND_ORDER[pending] if pending else (1.5 if atom["arom"] and mol.atoms[prev]["arom"] else 1)
            mol.bonds[(prev, idx)] = order
            if pending in ("/", "\\"):
                mol.marks[(prev, idx)] = {"chain": pending}
            mol.nbrs[prev].append(idx)
            mol.nbrs[idx].append(prev)
        if atom["h"] and atom["chir"]:
            mol.nbrs[idx].append("H")
        prev = idx
        pending = None
        expect_atom = False
        i += len(tok)
    if pending is not None:
        raise SmilesError("dangling_bond")
    if stack:
        raise SmilesError("unclosed_paren")
    if open_rings:
        raise SmilesError("unclosed_ring")
    if expect_atom and mol.atoms:
        raise SmilesError("trailing_separator")
    return mol
