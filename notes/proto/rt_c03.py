import sys, random, collections
sys.path.insert(0, "/tmp/proto")
import selfies as sf
import refsmiles, molgen
from molgen import parity, mark_dir, flip
rng = random.Random(int(sys.argv[1])); N = int(sys.argv[2])
sf.set_semantic_constraints("default")
bad = collections.Counter(); ex = {}; stats = collections.Counter()
def note(k, v):
    bad[k]+=1
    if k not in ex or len(v[0])<len(ex[k][0]): ex[k]=v
for t in range(N):
    m = molgen.rand_mol(rng)
    smi, order, nbw = molgen.write(m, rng)
    stats['n']+=1
    # self-check: my reader on my writer
    try:
        rin = refsmiles.read(smi)
    except refsmiles.SmilesError as e:
        note('selfcheck_read '+e.kind, (smi,)); continue
    if len(rin.atoms)!=len(order): note('selfcheck_atoms',(smi,)); continue
    gt_bonds = {}
    idx = {node:i for i,node in enumerate(order)}
    for key,o in m.order.items():
        a,b = tuple(key); i,j = sorted((idx[a],idx[b])); gt_bonds[(i,j)] = o
    if rin.bonds != gt_bonds: note('selfcheck_bonds',(smi, rin.bonds, gt_bonds)); continue
    try:
        e = sf.encoder(smi)
    except sf.EncoderError as x:
        note('EncoderError', (smi, str(x)[-100:])); continue
    d = sf.decoder(e)
    try: out = refsmiles.read(d)
    except refsmiles.SmilesError as x: note('out_unreadable',(smi,d)); continue
    if len(out.atoms)!=len(order): note('atom_count',(smi,d)); continue
    for i,node in enumerate(order):
        a = m.atoms[node]; o = out.atoms[i]
        if (o['el'],o['iso'],o['charge'])!=(a['el'],a['iso'],a['charge']) or o['h']!=a['h']:
            note('atom_mismatch',(smi,d,i)); break
    if out.bonds != gt_bonds: note('bond_mismatch',(smi,d)); continue
    # chirality
    for i,node in enumerate(order):
        a = m.atoms[node]
        if not a['chiral']:
            if out.atoms[i]['chir']: note('chir_invented',(smi,d))
            continue
        stats['chiral']+=1
        tag = out.atoms[i]['chir']
        if tag is None: note('chir_lost',(smi,d)); continue
        nb = [x if x=='H' else order[x] for x in out.nbrs[i]]
        canon = (["H"] if "H" in nb else []) + sorted(x for x in nb if x!='H')
        if sorted(map(str,nb)) != sorted(map(str,nbw[node])): note('nbr_set',(smi,d)); continue
        hand = (1 if tag=='@@' else 0) ^ parity(nb, canon)
        if out.ring_bonds & {(min(i,j),max(i,j)) for j in out.nbrs[i] if j!='H'}: stats['chiral_ring']+=1
        if hand != a['hand']: note('handedness',(smi,e,d,i))
    # marks
    for (i,j),mk in out.marks.items():
        a,b = order[i],order[j]
        exp = mark_dir(m,a,b)
        if 'chain' in mk:
            if mk['chain']!=exp: note('mark_chain',(smi,d,(i,j)))
        else:
            if mk.get('lo') and mk['lo']!=exp: note('mark_ring_lo',(smi,d,(i,j)))
            if mk.get('hi') and (exp is None or mk['hi']!=flip(exp)): note('mark_ring_hi',(smi,d,(i,j)))
    for (a,b),c in m.mark.items():
        i,j = idx[a],idx[b]; key=(min(i,j),max(i,j))
        stats['marks']+=1
        if key not in out.marks: note('mark_lost',(smi,e,d,key))
    e2 = sf.encoder(d)
    if e2!=e: note('reencode',(smi,e,e2))
print(stats); print(bad)
for k,v in ex.items(): print(k,v)
