import sys, threading, time
import selfies as sf
SELF = '/repo/selfies'
class Sched:
    def __init__(self, jobs, schedule):
        self.jobs = jobs; self.schedule = list(schedule)
        self.n = len(jobs)
        self.sems = [threading.Semaphore(0) for _ in jobs]
        self.back = threading.Semaphore(0)
        self.done = [False]*self.n
        self.results = [None]*self.n
        self.budget = [0]*self.n
        self.steps = [0]*self.n
    def tracer(self, i):
        def local(frame, event, arg):
            if event == 'opcode':
                self.steps[i] += 1
                self.budget[i] -= 1
                if self.budget[i] <= 0:
                    self.back.release()
                    self.sems[i].acquire()
            return local
        def glob(frame, event, arg):
            if frame.f_code.co_filename.startswith(SELF):
                frame.f_trace_opcodes = True
                frame.f_trace_lines = False
                return local
            return None
        return glob
    def worker(self, i):
        self.sems[i].acquire()
        sys.settrace(self.tracer(i))
        try:
            try: self.results[i] = ('ok', self.jobs[i]())
            except Exception as e: self.results[i] = ('exc', type(e).__name__)
        finally:
            sys.settrace(None)
            self.done[i] = True
            self.back.release()
    def run(self):
        ths = [threading.Thread(target=self.worker, args=(i,)) for i in range(self.n)]
        for t in ths: t.start()
        k = 0
        while not all(self.done):
            if k < len(self.schedule): i, q = self.schedule[k]; k += 1
            else: i, q = next(j for j in range(self.n) if not self.done[j]), 10**9
            if self.done[i]: continue
            self.budget[i] = q
            self.sems[i].release()
            self.back.acquire()
        for t in ths: t.join()
        return self.results, self.steps
jobs = [lambda: sf.decoder("[C][=C][Branch1][C][O][C][Ring1][Ring2][17OH1]"), lambda: sf.encoder("c1ccccc1[C@H](F)Cl"), lambda: sf.decoder("[N][17OH1][C]")]
import random
random.seed(3)
t=time.time()
for r in range(200):
    schedule = [(random.randrange(3), random.randint(1,200)) for _ in range(100)]
    res, steps = Sched(jobs, schedule).run()
print(res, steps, time.time()-t)
