#!/bin/bash
# Offline setup: third-party deps the checks need go to ./.deps (never into /venv), then oracle self-tests.
HERE="$(cd "$(dirname "$0")" && pwd)"
cd "$HERE" || exit 2
WH=/opt/veriftools/wheels
PY=/venv/bin/python
mkdir -p .deps .work evidence
export PYTHONPATH="${VF_REPO:-/repo}:$HERE:$HERE/.deps"
export PIP_NO_INDEX=1
$PY -c "import hypothesis" 2>/dev/null || $PY -m pip install -q --no-index --find-links $WH --target "$HERE/.deps" hypothesis || exit 2
$PY -c "import atheris" 2>/dev/null || $PY -m pip install -q --no-index --find-links $WH --target "$HERE/.deps" atheris \
  || echo "setup: atheris not installable; coverage-guided sub-tier of C08/C09 will be skipped (reported in evidence)"
$PY - <<'PY' || exit 2
import importlib, sys
from vf import core
core.assert_repo()
for m in ("vf.refsmiles", "vf.refderive"):
    importlib.import_module(m).selftest()
for extra in ("vf.gen_mol", "vf.refkek", "vf.sched"):
    try:
        mod = importlib.import_module(extra)
    except ModuleNotFoundError:
        continue
    if hasattr(mod, "selftest"):
        mod.selftest()
print("setup: oracle self-tests passed")
PY
