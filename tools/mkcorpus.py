#!/usr/bin/env python3
"""Builds corpus/smiles.txt: a fixed sample of dataset SMILES from /repo/tests/test_sets (deterministic),
kept short (<= 120 chars) and parseable by the independent reader R1. Run by hand; output is committed."""
import csv, hashlib, os, sys
sys.path.insert(0, os.path.dirname(os.path.dirname(os.path.abspath(__file__))))
from vf import refsmiles
base = "/repo/tests/test_sets"
files = ["custom_cases.csv", "nonfullerene.csv", "qm9.csv"] + ["molnet/" + f for f in sorted(os.listdir(base + "/molnet"))]
out = []
for f in files:
    p = os.path.join(base, f)
    if os.path.getsize(p) == 0:
        continue
    rows = list(csv.DictReader(open(p)))
    col = "smiles"
    sm = sorted({r[col].strip() for r in rows if r.get(col)}, key=lambda s: hashlib.md5(s.encode()).hexdigest())
    n = 0
    for s in sm:
        if len(s) > 120 or "*" in s or "$" in s:
            continue
        try:
            refsmiles.read(s)
        except refsmiles.SmilesError:
            continue
        out.append(s); n += 1
        if n >= (400 if "custom" not in f else 1000):
            break
out = sorted(set(out))
open(os.path.join(os.path.dirname(os.path.dirname(os.path.abspath(__file__))), "corpus", "smiles.txt"), "w").write("\n".join(out) + "\n")
print(len(out))
