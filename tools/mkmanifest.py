#!/usr/bin/env python3
"""Regenerates MANIFEST.json from the table below (only properties whose module exists are claimed;
the others are listed under not_applicable as 'not yet built' so the file is valid at all times)."""
import json
import os

HERE = os.path.dirname(os.path.dirname(os.path.abspath(__file__)))

CHECKS = {
    "C01": dict(
        technique="property-based testing: state-aware SELFIES generator x generated constraint tables; oracle = independent strict SMILES reader + capacity lookup + RDKit sanitizer under default table",
        level="exploration",
        text="Generated-input search: decoder outputs for live SELFIES strings (state-aware, templates with >99 rings / deep nesting, mutated encoder output, uniform) under generated accepted tables are re-read by an independent strict OpenSMILES reader and every atom's bond-order sum + explicit H is compared with an independent capacity lookup; under the default table RDKit must sanitize outputs over the robust alphabet. Exploration is the right level: the domain is infinite and the oracle is exact per case.",
        note="Trusted: R1 (vf/refsmiles.py), R5 capacity lookup, RDKit sanitizer (default table only); R2 is used only to steer the generator and to predict rejection.",
        ref="6/C01"),
    "C02": dict(
        technique="bounded-exhaustive enumeration + property-based sampling against an independent executable rendering of derivation.rst",
        level="exploration",
        text="All strings up to a length bound over rule-covering alphabets (under default and custom tables) plus sampled long strings under generated tables are decoded and compared, as complete molecules (atoms, bonds, marks, chiral sense, accept/reject), with the reference derivation R2. The exhaustive part is a finite sub-domain and flagged as such.",
        note="Trusted: R2 (vf/refderive.py) incl. its three documented interpretation choices, R1.",
        ref="6/C02"),
    "C03": dict(
        technique="property-based testing: abstract molecules x generated spellings x tables; oracle = generator ground truth vs independent reading of the round-trip output",
        level="exploration",
        text="Abstract molecular graphs are spelled as SMILES in many ways by an own writer, so atom order and bonds are known by construction; encoder(strict) then decoder output is re-read independently and compared index by index.",
        note="Trusted: R3 writer (vf/gen_mol.py) and R1 reader, cross-checked against each other and RDKit in self-tests.",
        ref="6/C03"),
    "C04": dict(
        technique="property-based testing: stereo-rich molecules x spellings; oracle = permutation parity of written neighbour order and per-bond mark direction",
        level="exploration",
        text="For generated molecules with @/@@ centres and / \\ marks (ring-opening, ring-closing, multi-ring, first atom, implicit H; marks on chain, branch and ring-closure bonds at either end) handedness and mark directions are computed from the generator's ground truth and from an independent reading of the round-trip output.",
        note="Trusted: R3 ground truth, R1 neighbour order and marks.",
        ref="6/C04"),
    "C05": dict(
        technique="property-based testing over generated aromatic systems and atom orders + enumeration of small graphs for the matching routine; oracle = needs-pi classification + exact perfect matching",
        level="exploration",
        text="Fused/bridged/cage aromatic systems with standard and extended atom kinds in several atom orders: acceptance must equal existence of a perfect matching of the needs-pi set, accepted outputs must carry exactly one in-system double bond on each needs-pi atom, and results must be order independent; the matching routine itself is checked on all small graphs and on batches of random cubic graphs / relabelled cages under a watchdog.",
        note="Trusted: R4 (vf/refkek.py) valence table for the standard kinds, exact matching (bitmask DP / blossom), R1.",
        ref="6/C05"),
    "C06": dict(
        technique="property-based testing: molecules x tables placed at capacity-1/0/+1, tables changing between calls; oracle = independent bond count against the table",
        level="exploration",
        text="strict=True must raise exactly when the ground-truth molecule exceeds the table read back from get_semantic_constraints(); strict=False must never raise for that reason and must not depend on the table.",
        note="Trusted: R3 ground truth bond counts, R5 capacity lookup.",
        ref="6/C06"),
    "C07": dict(
        technique="property-based testing: generated (valid and candidate-invalid) tables -> alphabet membership oracle + strings over the returned alphabet judged by the C01 validity oracle",
        level="exploration",
        text="For every table the setter accepts, the returned alphabet must contain the documented members, every member must decode alone, and uniform / state-aware strings over it must decode without error into molecules obeying the table.",
        note="Trusted: R5 expected alphabet, R1, capacity lookup.",
        ref="6/C07"),
    "C08": dict(
        technique="property-based testing over arbitrary str (fragment dictionary, unicode, templates) + coverage-guided fuzzing (atheris) in the thorough tier; oracle = exception-type / termination / state-untouched predicate",
        level="exploration",
        text="Arbitrary strings x flag combinations: decoder must return or raise DecoderError, terminate within a 1000x watchdog, and leave the constraint table untouched.",
        note="Calls run on a fresh thread with the default recursion limit; watchdog 300 s.",
        ref="6/C08"),
    "C09": dict(
        technique="property-based testing over arbitrary str (SMILES fragment dictionary, unicode, templates) + coverage-guided fuzzing (atheris) in the thorough tier; oracle = exception-type / termination predicate",
        level="exploration",
        text="Arbitrary strings x flag combinations: encoder must return or raise EncoderError and terminate.",
        note="Calls run on a fresh thread with the default recursion limit; watchdog 300 s.",
        ref="6/C09"),
    "C10": dict(
        technique="property-based testing: molecules x atom-spelling variants x tables; oracles = decode-does-not-raise, metamorphic same-molecule-same-symbols, fixpoint of encoder o decoder",
        level="exploration",
        text="Encoder output must be well formed, decodable under the same table, identical for spellings that differ only in atom spelling, and reproduced by re-encoding the decoded SMILES; also for accepted SMILES-like text without ground truth, an enumerated ladder of ring spans / branch lengths around the index-symbol boundaries and nesting depths up to 670.",
        note="Trusted: R3 writer emits the variant pairs with all other choices fixed.",
        ref="6/C10"),
    "C11": dict(
        technique="stateful property-based testing (Hypothesis rule-based state machine) against the reference derivation and fresh-interpreter subprocesses with other hash seeds (decoder, compatible decoder, strict and non-strict encoder)",
        level="exploration",
        text="Generated call histories (table switches, rejected updates, cache-filling translations, caller-side mutation) ending in translation calls whose results must equal R2 under the model table and the answers of fresh interpreters.",
        note="Trusted: R2, model of the table; fresh-interpreter answers come from subprocesses of the same tree.",
        ref="6/C11"),
    "C12": dict(
        technique="stateful property-based testing (Hypothesis rule-based state machine) against an in-memory model of the constraint table",
        level="exploration",
        text="Generated sequences of valid/invalid configuration calls interleaved with caller-side mutation of every returned or passed object; after every step get/preset/alphabet/probe decodes must equal the model.",
        note="Trusted: documented preset table, R5 expected alphabet.",
        ref="6/C12"),
    "C13": dict(
        technique="metamorphic property-based testing: [nop] insertion at generated position sets, padding round trip through the encoding utilities",
        level="exploration",
        text="decoder outcome (string or DecoderError; with attribute=True also the attribution) must be equal for a string and its [nop]-decorated variants, with insertion biased to index positions, inside branches and around dots; padding round trip through the encoding utilities.",
        note="R2 is used only to classify where insertions land.",
        ref="6/C13"),
    "C14": dict(
        technique="property-based testing: strings built from generated token lists; oracle = the token list",
        level="exploration",
        text="split_selfies / len_selfies / get_alphabet_from_selfies on strings built from known token lists, encoder outputs against the well-formedness grammar, decoder on string vs reference derivation on the token list.",
        note="Trusted: construction of the string from its tokens.",
        ref="6/C14"),
    "C15": dict(
        technique="property-based testing against a 15-line reference model of the label / one-hot encodings",
        level="exploration",
        text="Generated vocabularies, strings, pad lengths, enc types and batches; all four functions compared with the reference model, failure clauses (also at later batch positions) must raise, editing a returned encoding must not change later results.",
        note="Trusted: the reference model in vf/props/c15.py.",
        ref="6/C15"),
    "C16": dict(
        technique="exhaustive enumeration of n < 16^3 and all symbol triples + property-based sampling; oracle = positional arithmetic over the documented table",
        level="exploration",
        text="Function level enumerated completely (finite) plus n around 16^k up to 16^69 in a memory/time-limited subprocess, API level (decoder ring/branch placement, encoder digits, non-index symbols at digit positions) sampled in quick and enumerated for all n < 16^3 in thorough.",
        note="Trusted: documented index table, R1 for reading ring/branch placement.",
        ref="6/C16"),
    "C17": dict(
        technique="property-based testing: generated SELFIES/SMILES; oracle = independent tokenisations of input and output and the reference derivation's atom origins",
        level="exploration",
        text="attribute=True must not change the translation; decoder entries must point at the right output characters and input symbols (incl. enclosing branches per R2); encoder atom symbols must be attributed to the SMILES atom token they came from.",
        note="Trusted: R2 origins, own SMILES tokeniser.",
        ref="6/C17"),
    "C18": dict(
        technique="property-based testing: strings with legacy spellings whose modern equivalent is known by construction; differential against the plain decoder",
        level="exploration",
        text="compatible=True on strings without legacy symbols equals the plain decoder; with legacy symbols equals the plain decoder on the independently modernised string; without the flag legacy symbols are rejected when reached.",
        note="Trusted: the legacy->modern map of CHANGELOG.md as encoded in vf/props/c18.py, R2 for 'reached'.",
        ref="6/C18"),
    "C19": dict(
        technique="schedule fuzzing: generated opcode-level thread schedules run by a deterministic scheduler (sys.settrace) + free-running stress and cold-start subprocesses; oracle = results of the same calls run alone, plus progress-based detection of calls that wait for ever",
        level="exploration",
        text="2-4 concurrent encoder/decoder jobs under generated interleavings at bytecode granularity inside selfies frames (incl. jobs that meet never-seen symbols and never-requested ring sizes inside the interleaving), free-running stress threads, and cold-start runs (fresh interpreters whose first calls are made by several threads at once); every job's result must equal its serial result, the documented index code, and a serial run in another process; threads that stop making progress (no opcode for 30 s / no completed call for 45 s) are a violation.",
        note="Switches are forced only at opcode boundaries of frames under /repo/selfies; C internals assumed atomic under the GIL.",
        ref="6/C19"),
}


def main():
    checks = []
    na = []
    for pid in sorted(CHECKS):
        c = CHECKS[pid]
        if not os.path.exists(os.path.join(HERE, "vf", "props", pid.lower() + ".py")):
            na.append(dict(property_id=pid, reason="check not built yet (work in progress; not a limit of the technique)"))
            continue
        checks.append(dict(
            property_id=pid,
            quick_cmd="./check %s --tier quick" % pid,
            thorough_cmd="./check %s --tier thorough" % pid,
            evidence_file="evidence/%s.json" % pid,
            replay_cmd_template="./check %s --replay {path}" % pid,
            engine="vf",
            level_claimed=dict(category=c["level"], text=c["text"], design_ref="DESIGN.md section " + c["ref"]),
            level_note=c["note"],
            technique=c["technique"],
        ))
    m = dict(
        version=1,
        setup_cmd="./setup.sh",
        hooks=dict(
            guard="SELFIES_VERIF",
            enable="no source hooks: every property is observed at the public API; checks import selfies from /repo via PYTHONPATH",
            baseline_off_cmd="cd /repo && /venv/bin/python -m pytest -ra -q -p no:cacheprovider --timeout=900 --continue-on-collection-errors",
            source_commits=[],
            add_only=True,
        ),
        engines=[dict(name="vf", path="vf/", serves_properties=[c["property_id"] for c in checks],
                      kind_free_text="Hypothesis-driven choice-stream generators + independent reference oracles (R1 SMILES reader, R2 derivation, R3 molecule writer, R4 kekulization, R5 table model), sharded over 16 processes; atheris for C08/C09 thorough")],
        checks=checks,
        notes="See DESIGN.md. known_findings.json lists genuine defects (open / fixed). regress/<id>/ holds pinned replay inputs.",
        not_applicable=na,
    )
    with open(os.path.join(HERE, "MANIFEST.json"), "w") as f:
        json.dump(m, f, indent=1)
    print("claimed:", [c["property_id"] for c in checks])


if __name__ == "__main__":
    main()
