#!/usr/bin/env python3
"""Sensitivity trials: apply a hand-written mutation to a scratch copy of /repo (outside /repo and /verif),
run the named checks against it with VF_REPO, report whether they turn red, delete the copy.

usage: tools/mutants.py [name ...]        (no name = all)
Nothing registered in MANIFEST.json uses this file; it exists to show that the checks are not decoration.
"""
import json
import os
import shutil
import subprocess
import sys
import time

HERE = os.path.dirname(os.path.dirname(os.path.abspath(__file__)))

# name -> (checks expected to catch it, [(file, old, new), ...])
M = {
    # ---- C01 / C02 / C07 decoder semantics
    "ring_order_not_clipped_left": (["C01", "C02"], [("selfies/decoder.py", "order = min(order, lfree, rfree)", "order = min(order, rfree)")]),
    "bond_upgrade_uncapped": (["C01", "C02"], [("selfies/decoder.py", "new_order = min(order + bond.order, 3)", "new_order = order + bond.order")]),
    "ring_state_not_consumed": (["C01", "C02"], [("selfies/grammar_rules.py", "    bond_order = min(ring_type, state)\n    bonds_left = state - bond_order", "    bond_order = min(ring_type, state)\n    bonds_left = state")]),
    "capacity_ignores_h": (["C01", "C02"], [("selfies/mol_graph.py", "bond_cap -= 0 if (self.h_count is None) else self.h_count", "bond_cap -= 0")]),
    "index_digits_swapped": (["C02", "C16"], [("selfies/constants.py", '"[O]", "[N]", "[=N]"', '"[N]", "[O]", "[=N]"')]),
    "branch_init_state": (["C02"], [("selfies/grammar_rules.py", "branch_init_state = min(state - 1, branch_type)", "branch_init_state = min(state, branch_type)")]),
    "ring_target_off_by_one": (["C02", "C16"], [("selfies/decoder.py", "lidx = max(0, prev_atom.index - (Q + 1))", "lidx = max(0, prev_atom.index - Q)")]),
    "epsilon_x0_terminates": (["C02"], [("selfies/decoder.py", "next_state = 0 if (state == 0) else None", "next_state = None")]),
    "second_pass_reversed": (["C02"], [("selfies/decoder.py", "    for latom, ratom, bond_info in rings:", "    for latom, ratom, bond_info in reversed(rings):")]),
    "ring_bonds_after_branches": (["C02", "C04"], [("selfies/decoder.py", "a=lidx, a_stereo=lstereo, a_pos=rings_made[lidx],\n                b=ridx, b_stereo=rstereo, b_pos=rings_made[ridx],", "a=lidx, a_stereo=lstereo, a_pos=-1,\n                b=ridx, b_stereo=rstereo, b_pos=-1,")]),
    "nested_budget_not_charged": (["C02"], [("selfies/decoder.py", "                n_derived += n + _derive_mol_from_symbols(", "                n_derived += n + 0 * _derive_mol_from_symbols(")]),
    "writer_drops_paren": (["C01", "C02"], [("selfies/utils/smiles_utils.py", "            if needs_closing:\n                derived.append(\")\")", "            if needs_closing and len(stack) < 40:\n                derived.append(\")\")")]),
    # ---- C03 / C04 / C10 encoder
    "ring_q_wrong_end": (["C03", "C16"], [("selfies/encoder.py", "Q_as_symbols = get_selfies_from_index(ring_len - 1)", "Q_as_symbols = get_selfies_from_index(ring_len - 1 if ring_len < 40 else ring_len)")]),
    "ring_order_lorder_only": (["C03"], [("selfies/utils/smiles_utils.py", "order=max(lorder, rorder)", "order=lorder")]),
    "placeholder_not_honoured": (["C04"], [("selfies/mol_graph.py", "        elif out_edges[pos] is None:\n            out_edges[pos] = bond", "        elif out_edges[pos] is None:\n            out_edges.remove(None)\n            out_edges.append(bond)")]),
    "chirality_sort_dropped": (["C04"], [("selfies/encoder.py", "    partition[1].sort(key=lambda x: out_bonds[x].dst)\n", "")]),
    "ring_stereo_ends_swapped": (["C04"], [("selfies/encoder.py", 'bond_char = "-" if (lbond.stereo is None) else lbond.stereo\n        bond_char += "-" if (rbond.stereo is None) else rbond.stereo', 'bond_char = "-" if (rbond.stereo is None) else rbond.stereo\n        bond_char += "-" if (lbond.stereo is None) else lbond.stereo')]),
    "h1_spelled_h": (["C10", "C03"], [("selfies/utils/smiles_utils.py", '            builder.append("H")\n            builder.append(str(atom.h_count))', '            builder.append("H")\n            builder.append(str(atom.h_count) if atom.h_count > 1 else "")')]),
    "atom_class_leaks": (["C03", "C10"], [("selfies/utils/smiles_utils.py", "    isotope, element, chirality, h_count, charge, _ = m.groups()", "    isotope, element, chirality, h_count, charge, _cls = m.groups()\n    if _cls and not isotope:\n        isotope = _cls[1:]")]),
    # ---- C05
    "prune_charge_sign": (["C05"], [("selfies/mol_graph.py", "            if any(used_electrons == v - atom.charge for v in valences):", "            if any(used_electrons == v + atom.charge for v in valences):")]),
    "greedy_takes_matched": (["C05"], [("selfies/utils/matching_utils.py", "        mate = next(i for i in graph[node] if matching[i] is None)", "        mate = next(i for i in graph[node] if matching[i] is None or free_degrees[i] > 2)")]),
    "blossom_fallback_removed": (["C05"], [("selfies/utils/matching_utils.py", "    if (path is None) or (len(set(path)) != len(path)):", "    if False:")]),
    "implicit_aromatic_ring_bond": (["C05", "C03"], [("selfies/utils/smiles_utils.py", "    if latom.is_aromatic and ratom.is_aromatic and (bonds == (None, None)):\n        lorder = rorder = 1.5", "    if False:\n        lorder = rorder = 1.5")]),
    # ---- C06
    "strict_ge": (["C06"], [("selfies/encoder.py", "        if bond_count > bond_cap:", "        if bond_count > bond_cap + (1 if atom.charge < -1 else 0):")]),
    "capacity_key_no_sign": (["C06", "C01", "C02"], [("selfies/bond_constraints.py", '        key += "{:+}".format(charge)', '        key += "+{}".format(abs(charge))')]),
    "capacity_cache_not_cleared": (["C06", "C11", "C12"], [("selfies/bond_constraints.py", "    get_bonding_capacity.cache_clear()\n", "")]),
    # ---- C07 / C12
    "alphabet_stale": (["C07", "C12"], [("selfies/bond_constraints.py", "    get_semantic_robust_alphabet.cache_clear()\n", "")]),
    "alphabet_filter_ge": (["C07", "C12"], [("selfies/bond_constraints.py", "        if (m > c) or (a == \"?\"):", "        if (m >= c and c == 3) or (m > c) or (a == \"?\"):")]),
    "preset_returned_uncopied": (["C12"], [("selfies/bond_constraints.py", "    return dict(_PRESET_CONSTRAINTS[name])", "    return _PRESET_CONSTRAINTS[name]")]),
    "set_without_copy": (["C12", "C11"], [("selfies/bond_constraints.py", "        _current_constraints = dict(bond_constraints)", "        _current_constraints = bond_constraints")]),
    "assign_before_validation": (["C12"], [("selfies/bond_constraints.py", "        for key, value in bond_constraints.items():\n\n            # error checking for keys", "        _current_constraints = dict(bond_constraints)\n        for key, value in bond_constraints.items():\n\n            # error checking for keys")]),
    # ---- C08 / C09
    "tokenizer_error_escapes": (["C08"], [("selfies/decoder.py", "    except ValueError as err:\n        raise DecoderError(str(err)) from None", "    except KeyError as err:\n        raise DecoderError(str(err)) from None")]),
    "modernize_index_error": (["C08"], [("selfies/compatibility.py", '    if symbol[-5:] == "expl]":  # e.g. [XXXexpl]', '    if symbol[-5:] == "expl]" or symbol[2] == "\\x00":  # e.g. [XXXexpl]')]),
    "parser_error_escapes": (["C09"], [("selfies/utils/smiles_utils.py", '                raise SMILESParserError(smiles, err_msg, i)\n            token = SMILESToken(bond_idx, i, i + 3,', '                raise KeyError(err_msg)\n            token = SMILESToken(bond_idx, i, i + 3,')]),
    # ---- C11 / C19
    "atom_instance_cached": (["C11", "C19", "C02"], [("selfies/grammar_rules.py", "    bond_info, atom_fac = output\n    atom = atom_fac()", "    bond_info, atom_fac = output\n    atom = atom_fac() if symbol in _PROCESS_ATOM_CACHE and not symbol.startswith(\"[7\") else _CACHED_ATOMS.setdefault(symbol, atom_fac())"),
                                                       ("selfies/grammar_rules.py", "_PROCESS_ATOM_CACHE = _build_atom_cache()", "_PROCESS_ATOM_CACHE = _build_atom_cache()\n_CACHED_ATOMS = {}")]),
    "module_level_ring_list": (["C19"], [("selfies/decoder.py", "    rings = []\n    attribution_index = 0", "    rings = _RINGS\n    rings.clear()\n    attribution_index = 0"),
                                          ("selfies/decoder.py", "def _tokenize_selfies(selfies, compatible):", "_RINGS = []\n\n\ndef _tokenize_selfies(selfies, compatible):")]),
    # ---- C13
    "nop_counts_in_budget": (["C13"], [("selfies/decoder.py", '            if symbol == "[nop]":\n                continue\n            if compatible:', '            if compatible:'),
                                        ("selfies/decoder.py", "        try:  # retrieve next symbol\n            index, symbol = next(symbol_iter)\n            n_derived += 1\n        except StopIteration:\n            break\n", "        try:  # retrieve next symbol\n            index, symbol = next(symbol_iter)\n            n_derived += 1\n        except StopIteration:\n            break\n        if symbol == \"[nop]\":\n            continue\n")]),
    # ---- C14
    "len_counts_brackets_only": (["C14", "C15"], [("selfies/utils/selfies_utils.py", '    return selfies.count("[") + selfies.count(".")', '    return selfies.count("[")')]),
    # ---- C15
    "pad_off_by_one": (["C15", "C13"], [("selfies/utils/encoding_utils.py", '        selfies += "[nop]" * (pad_to_len - len_selfies(selfies))', '        selfies += "[nop]" * (pad_to_len - len_selfies(selfies) - (1 if "." in selfies else 0))')]),
    # ---- C17
    "attr_dot_offset_dropped": (["C17"], [("selfies/utils/smiles_utils.py", "attribution_index += _strlen(derived) + 1  # + 1 for the dot", "attribution_index += _strlen(derived)")]),
    "attr_changes_result": (["C17"], [("selfies/decoder.py", "    _form_rings_bilocally(mol, rings)\n    return mol_to_smiles(mol, attribute)", "    _form_rings_bilocally(mol, rings if not attribute else rings[:3])\n    return mol_to_smiles(mol, attribute)")]),
    # ---- C18
    "compat_rows_swapped": (["C18"], [("selfies/compatibility.py", '("[Branch{}_2]", "[=Branch{}]"),\n            ("[Branch{}_3]", "[#Branch{}]"),', '("[Branch{}_3]", "[=Branch{}]"),\n            ("[Branch{}_2]", "[#Branch{}]"),')]),
    "compat_drops_bond_prefix": (["C18"], [("selfies/compatibility.py", '            symbol = "[{}{}]".format(bond_char, atom_symbol)', '            symbol = "[{}{}]".format(bond_char if bond_char != "#" else "", atom_symbol)')]),
    "compat_always_on": (["C18", "C02", "C08"], [("selfies/decoder.py", "            if compatible:\n                symbol = modernize_symbol(symbol)", "            if compatible or symbol.endswith(\"_1]\"):\n                symbol = modernize_symbol(symbol)")]),
}


def run(name, checks=None, tier="quick"):
    expected, edits = M[name]
    dst = "/tmp/vf-mut-%s" % name
    shutil.rmtree(dst, ignore_errors=True)
    os.makedirs(dst)
    shutil.copytree("/repo/selfies", dst + "/selfies", ignore=shutil.ignore_patterns("__pycache__"))
    try:
        for f, old, new in edits:
            p = os.path.join(dst, f)
            s = open(p).read()
            if old not in s:
                return dict(name=name, error="pattern not found in %s: %r" % (f, old[:60]))
            open(p, "w").write(s.replace(old, new, 1))
        res = {}
        for c in (checks or expected):
            t0 = time.time()
            env = dict(os.environ, VF_REPO=dst, VERIF_SEED=os.environ.get("VERIF_SEED", "1"))
            p = subprocess.run([os.path.join(HERE, "check"), c, "--tier", tier, "--no-evidence"], env=env, stdout=subprocess.PIPE, stderr=subprocess.STDOUT)
            out = p.stdout.decode()
            sigs = [l.split(":", 1)[0][10:] + ":" + l.split(":", 1)[1].split(" {")[0].split(":")[0] for l in out.splitlines() if l.startswith("violation ")]
            res[c] = dict(exit=p.returncode, wall=round(time.time() - t0, 1), signatures=[l[10:90] for l in out.splitlines() if l.startswith("violation ")][:3],
                          harness=[l for l in out.splitlines() if "HARNESS" in l][:1])
        return dict(name=name, results=res)
    finally:
        shutil.rmtree(dst, ignore_errors=True)


def main():
    names = sys.argv[1:] or sorted(M)
    out = []
    for n in names:
        r = run(n)
        out.append(r)
        if "error" in r:
            print("%-32s ERROR %s" % (n, r["error"]))
            continue
        for c, v in r["results"].items():
            print("%-32s %s exit=%d %5.1fs %s %s" % (n, c, v["exit"], v["wall"], "; ".join(v["signatures"])[:150], v["harness"]))
        sys.stdout.flush()
    with open(os.path.join(HERE, ".work", "mutants.json"), "w") as f:
        json.dump(out, f, indent=1)


if __name__ == "__main__":
    main()
