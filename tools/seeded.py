#!/usr/bin/env python3
"""Confirm a seeded change produced by a sub-agent and run the checks against it.

usage: tools/seeded.py /tmp/seed/C06 A [extra check ids ...]   -> writes /verif/seeded/C06-A/{patch.diff,demo.py,meta.json}

Steps (all in the scratch worktree, never in /repo):
  clean tree: demo exits 0;  apply patch;  demo exits 1;  unit tests pass;  dataset tests no worse than the known flaky ones;
  ./check <id> --tier quick with VF_REPO=<worktree> (exit 1 + VIOLATION expected);  git checkout -- selfies.
"""
import json
import os
import re
import shutil
import subprocess
import sys
import time

HERE = os.path.dirname(os.path.dirname(os.path.abspath(__file__)))
PY = "/venv/bin/python"


def sh(cmd, cwd, env=None, timeout=3600):
    e = dict(os.environ)
    e.update(env or {})
    p = subprocess.run(cmd, cwd=cwd, env=e, stdout=subprocess.PIPE, stderr=subprocess.STDOUT, timeout=timeout)
    return p.returncode, p.stdout.decode("utf-8", "replace")


def checks_only(wt, var, extra):
    """re-run the checks against an already confirmed seeded change and merge the results into its meta.json"""
    pid = os.path.basename(wt)
    dst = os.path.join(HERE, "seeded", "%s-%s" % (pid, var))
    meta = json.load(open(os.path.join(dst, "meta.json")))
    sh(["git", "checkout", "--", "selfies"], wt)
    rc, out = sh(["git", "apply", os.path.join(dst, "patch.diff")], wt)
    if rc != 0:
        print("patch does not apply", out)
        return 2
    until_caught = bool(os.environ.get("SEED_UNTIL_CAUGHT"))
    try:
        prev = [c for c in meta.get("caught_by", []) if c != pid]
        todo = [pid] + prev + [c for c in list(meta.get("checks", {})) + extra if c != pid and c not in prev]
        seen = set()
        for c in todo:
            if c in seen:
                continue
            if until_caught and any(meta["checks"].get(x, {}).get("exit") == 1 and x in seen for x in seen):
                # final pass: the own check first, the others only while nothing has caught the change (older results of the
                # checks that are not re-run are kept, marked by their older 'at')
                break
            seen.add(c)
            t0 = time.time()
            rc, out = sh([os.path.join(HERE, "check"), c, "--tier", "quick", "--no-evidence"], HERE,
                         {"VF_REPO": wt, "VERIF_SEED": os.environ.get("VERIF_SEED", "1")})
            meta.setdefault("checks", {})[c] = dict(exit=rc, wall_s=round(time.time() - t0, 1), at=time.strftime("%Y-%m-%d %H:%M"),
                                                    violations=[l[:300] for l in out.splitlines() if l.startswith("violation ")][:4],
                                                    harness=[l for l in out.splitlines() if "HARNESS" in l][:1])
    finally:
        sh(["git", "checkout", "--", "selfies"], wt)
    meta["caught_by"] = sorted(c for c, v in meta["checks"].items() if v["exit"] == 1)
    meta["checks_rerun_at"] = time.strftime("%Y-%m-%d %H:%M")
    json.dump(meta, open(os.path.join(dst, "meta.json"), "w"), indent=1)
    print(pid + "-" + var, "caught_by", meta["caught_by"], {c: v["exit"] for c, v in meta["checks"].items()})
    return 0


def main():
    if sys.argv[1] == "--checks-only":
        return checks_only(sys.argv[2].rstrip("/"), sys.argv[3], sys.argv[4:])
    wt = sys.argv[1].rstrip("/")
    var = sys.argv[2]
    extra = sys.argv[3:]
    pid = os.path.basename(wt)
    env = {"PYTHONPATH": wt, "PYTHONHASHSEED": "0"}
    log = dict(worktree=wt, variant=var, ran=[])

    def step(name, cmd, cwd=wt, env_=env, **kw):
        t0 = time.time()
        rc, out = sh(cmd, cwd, env_, **kw)
        log["ran"].append(dict(step=name, cmd=" ".join(cmd), exit=rc, wall_s=round(time.time() - t0, 1), tail=out[-600:]))
        return rc, out

    sh(["git", "checkout", "--", "selfies"], wt)
    rc, _ = step("demo on clean tree", [PY, "demo_%s.py" % var])
    ok_clean = rc == 0
    rc, out = step("git apply", ["git", "apply", "patch_%s.diff" % var])
    if rc != 0:
        print("patch does not apply:\n" + out)
        return 2
    try:
        rc, _ = step("demo with change", [PY, "demo_%s.py" % var])
        ok_broken = rc != 0
        rc, out = step("unit tests with change", [PY, "-m", "pytest", "-q", "-p", "no:cacheprovider", "tests/test_selfies.py",
                                                   "tests/test_selfies_utils.py", "tests/test_specific_cases.py"])
        ok_unit = rc == 0
        rc, out = step("dataset tests with change", [PY, "-m", "pytest", "-q", "-p", "no:cacheprovider", "tests/test_on_datasets.py"])
        failed = set(re.findall(r"test_roundtrip_translation\[(test_path\d+)\]", out))
        bad = failed - {"test_path1", "test_path6", "test_path12"}
        hiv_ok = True
        if "test_path12" in failed:
            rows = open(os.path.join(wt, "tests/error_logs/hiv.csv")).read().splitlines()[1:]
            hiv_ok = all("nc6nc(nc7nc(" in r or "nc5nc(nc6nc(" in r for r in rows if r.strip())
        ok_data = not bad and hiv_ok
        checks = {}
        for c in [pid] + extra:
            t0 = time.time()
            rc, out = sh([os.path.join(HERE, "check"), c, "--tier", "quick", "--no-evidence"], HERE,
                         {"VF_REPO": wt, "VERIF_SEED": os.environ.get("VERIF_SEED", "1")})
            checks[c] = dict(exit=rc, wall_s=round(time.time() - t0, 1),
                             violations=[l[:300] for l in out.splitlines() if l.startswith("violation ")][:4],
                             harness=[l for l in out.splitlines() if "HARNESS" in l][:1] + ([out[-500:]] if rc == 2 else []))
    finally:
        sh(["git", "checkout", "--", "selfies"], wt)
    confirmed = ok_clean and ok_broken and ok_unit and ok_data
    caught = [c for c, v in checks.items() if v["exit"] == 1]
    meta = {}
    mp = os.path.join(wt, "meta_%s.json" % var)
    if os.path.exists(mp):
        try:
            meta = json.load(open(mp))
        except Exception:  # noqa
            meta = dict(raw=open(mp).read()[:2000])
    out = dict(property=pid, variant=var, from_sub_agent=meta, confirmed=confirmed,
               confirmation=dict(demo_passes_on_clean_tree=ok_clean, demo_fails_with_change=ok_broken, unit_tests_pass=ok_unit,
                                 dataset_tests_no_worse=ok_data, dataset_failed=sorted(failed)),
               checks=checks, caught_by=caught, what_i_ran=log["ran"])
    dst = os.path.join(HERE, "seeded", "%s-%s" % (pid, var))
    if confirmed:
        os.makedirs(dst, exist_ok=True)
        shutil.copy(os.path.join(wt, "patch_%s.diff" % var), os.path.join(dst, "patch.diff"))
        shutil.copy(os.path.join(wt, "demo_%s.py" % var), os.path.join(dst, "demo.py"))
        json.dump(out, open(os.path.join(dst, "meta.json"), "w"), indent=1)
    print(json.dumps(dict(id=pid + "-" + var, confirmed=confirmed, conf=out["confirmation"], caught_by=caught,
                          checks={c: (v["exit"], v["violations"][:2], v["harness"][:1]) for c, v in checks.items()}), indent=1)[:3000])
    return 0


if __name__ == "__main__":
    sys.exit(main())
