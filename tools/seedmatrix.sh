#!/bin/bash
# re-run the checks against every confirmed seeded change (checks-only), 3 workers, one property's worktree per worker at a time.
# SEED_UNTIL_CAUGHT=1: the property's own check first, the others only while nothing has caught the change.
# usage: tools/seedmatrix.sh [properties to skip ...]
cd "$(dirname "$0")/.."
SKIP=" $* "
worker() { for p in "$@"; do case "$SKIP" in *" $p "*) continue;; esac; for d in seeded/$p-*; do v=${d##*-}; python3 tools/seeded.py --checks-only /tmp/seed/$p $v >> .work/matrix-$p.log 2>&1; done; done; }
rm -f .work/matrix-*.log
worker C19 C04 C07 C10 C13 C16 C01 &
worker C02 C08 C11 C14 C17 C05 &
worker C03 C06 C09 C12 C15 C18 &
wait
