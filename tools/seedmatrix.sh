#!/bin/bash
# re-run the checks against every confirmed seeded change (checks-only), 3 workers, one property's worktree per worker at a time
cd "$(dirname "$0")/.."
worker() { for p in "$@"; do for d in seeded/$p-*; do v=${d##*-}; python3 tools/seeded.py --checks-only /tmp/seed/$p $v >> .work/matrix-$p.log 2>&1; done; done; }
rm -f .work/matrix-*.log
worker C01 C04 C07 C10 C13 C16 C19 &
worker C02 C05 C08 C11 C14 C17 &
worker C03 C06 C09 C12 C15 C18 &
wait
