#!/bin/bash
# usage: tools/seedq.sh "C04 A" "C08 A C11" ...   (each arg: <prop> <variant> [extra checks])
cd "$(dirname "$0")/.."
for x in "$@"; do set -- $x; p=$1; v=$2; shift 2; python3 tools/seeded.py /tmp/seed/$p $v "$@" > .work/seeded-$p-$v.log 2>&1; done
