#!/usr/bin/env python3
import sys,json,glob,os
for f in sorted(glob.glob('/verif/.work/seeded-*.log')):
    t=open(f).read()
    try:
        i=t.index('{'); d=json.loads(t[i:])
        print(d['id'], 'confirmed=%s'%d['confirmed'], {k:v for k,v in d['conf'].items() if k!='dataset_failed'} if not d['confirmed'] else '', 'caught_by=',d['caught_by'])
        if '-v' in sys.argv:
            for c,v in d['checks'].items(): print('    ',c,v[0], str(v[1])[:260], v[2])
    except Exception as e: print(os.path.basename(f), 'UNPARSED', t[-300:].replace('\n',' | '))
