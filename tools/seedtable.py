#!/usr/bin/env python3
"""markdown table of the seeded changes (seeded/*/meta.json) for DESIGN.md section 11"""
import glob, json, os, re
HERE = os.path.dirname(os.path.dirname(os.path.abspath(__file__)))
rows = []
for d in sorted(glob.glob(os.path.join(HERE, "seeded", "*"))):
    m = json.load(open(os.path.join(d, "meta.json")))
    sa = m.get("from_sub_agent", {}) or {}
    summ = str(sa.get("summary") or sa.get("raw") or "")
    summ = re.sub(r"\s+", " ", summ)
    needs = re.sub(r"\s+", " ", str(sa.get("needs") or ""))
    def clip(t, n):
        t = t.replace("|", "/")
        return t if len(t) <= n else t[:n - 3] + "..."
    own = m["property"]
    caught = m.get("caught_by", [])
    ran = sorted(m.get("checks", {}))
    verdict = ", ".join(caught) if caught else "none"
    if m.get("caught_by_some_runs") and not caught:
        verdict = "none in the last run (" + ", ".join(m["caught_by_some_runs"]) + " in some runs)"
    rows.append("| %s | %s | %s | %s | %s |" % (os.path.basename(d), clip(summ, 170), clip(needs, 120), verdict, ", ".join(c for c in ran if c not in caught) or "-"))
print("| id | change (sub-agent's summary) | needs | caught by | run, not caught |")
print("|----|------------------------------|-------|-----------|-----------------|")
print("\n".join(rows))
