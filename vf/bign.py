"""Function-level index code for very large n (C16), in a subprocess with an address-space limit and a time limit: an
implementation that memoises a table may not be driven into the machine's memory by the check.
stdin: {"ns": ["<decimal n>", ...]}   stdout: {"file": ..., "results": [[n, symbols | null, back | null, error | null], ...]}"""
import json
import resource
import sys


def main():
    resource.setrlimit(resource.RLIMIT_AS, (3 * 2 ** 30, 3 * 2 ** 30))
    q = json.load(sys.stdin)
    import selfies as sf
    from selfies.grammar_rules import get_index_from_selfies, get_selfies_from_index
    out = []
    for ns in q["ns"]:
        n = int(ns)
        try:
            syms = list(get_selfies_from_index(n))
            back = get_index_from_selfies(*syms)
            out.append([ns, syms, str(back), None])
        except MemoryError:
            out.append([ns, None, None, "MemoryError"])
            break
        except Exception as e:  # noqa
            out.append([ns, None, None, type(e).__name__])
    json.dump(dict(file=sf.__file__, results=out), sys.stdout)


if __name__ == "__main__":
    main()
