"""Cold-start concurrency for C19: a fresh interpreter whose very first translation calls are made by several
threads at once (behind a barrier, switch interval 1e-6 s), then the same calls serially in the same process.
stdin: {"jobs": [{kind, text, flags}], "threads": T, "rounds": R}   stdout: {"file":..., "mismatches": [...], "calls": n}"""
import json
import sys
import threading
import warnings


def main():
    warnings.simplefilter("ignore")
    q = json.load(sys.stdin)
    import selfies as sf
    jobs = q["jobs"]
    T = q["threads"]
    R = q["rounds"]

    W_EVERY = int(q.get("w_every", 1))

    def run(j, v=10000, w=20000):
        """{v} in a job text is a per-call, per-thread varying isotope (10000..18998): a stream of ever new bracket atoms, so that
        bounded caches keep evicting; {w} is a varying isotope (20000..28998) that is the same in every thread at the same call
        number, so that all threads meet the same never-seen symbol at about the same moment. Results are compared after
        renaming them (ranges no other number in an output falls into)"""
        fl = j.get("flags", {})
        text = j["text"].replace("{v}", str(v)).replace("{w}", str(w))
        try:
            if j["kind"] == "dec":
                r = sf.decoder(text, attribute=bool(fl.get("attribute")), compatible=bool(fl.get("compatible")))
            else:
                r = sf.encoder(text, strict=bool(fl.get("strict", True)), attribute=bool(fl.get("attribute")))
            if fl.get("attribute"):
                r = [r[0], [[a.index, a.token, [[x.index, x.token] for x in (a.attribution or [])]] for a in r[1]]]
            if "{v}" in j["text"] or "{w}" in j["text"]:
                return json.loads(json.dumps(["ok", r]).replace(str(v), "V").replace(str(w), "W"))
            return ["ok", r]
        except Exception as e:  # noqa
            return ["exc", type(e).__name__]

    if q.get("warm"):
        # warm variant: every job has run alone once before the threads start (caches and lazily built tables are filled)
        for j in jobs:
            run(j, 19998, 29998)

    barrier = threading.Barrier(T)
    results = [[] for _ in range(T)]

    rotate = q.get("rotate", True)

    def worker(t):
        barrier.wait()
        n = 0
        for r in range(R):
            for k in range(len(jobs)):
                # rotate: every thread starts with a different job; otherwise all threads make the same
                # first-ever call at the same moment
                idx = (k + t) % len(jobs) if rotate else k
                n += 1
                results[t].append((idx, run(jobs[idx], 10000 + (n * 7 + t * 1301) % 8999, 20000 + ((n // W_EVERY) * 7) % 8999)))

    sys.setswitchinterval(1e-6)
    ths = [threading.Thread(target=worker, args=(t,), daemon=True) for t in range(T)]
    for t in ths:
        t.start()
    # wait until all threads are done; a run in which no thread completes a single call for STALL seconds (each call
    # takes milliseconds when run alone) has stalled: the threads are waiting for each other
    import time
    STALL = float(q.get("stall_seconds", 90))
    last, seen = time.monotonic(), -1
    stalled = False
    while any(t.is_alive() for t in ths):
        time.sleep(0.2)
        done = sum(len(r) for r in results)
        now = time.monotonic()
        if done != seen:
            seen, last = done, now
        elif now - last > STALL:
            stalled = True
            break
    sys.setswitchinterval(0.005)
    if stalled:
        # a serial call could now wait for ever on whatever the threads wait on: report and leave
        json.dump(dict(file=sf.__file__, mismatches=[], calls=seen, alive=sum(t.is_alive() for t in ths), stalled=True,
                       ring_scan=[], serial_after=[], concurrent_distinct={}), sys.stdout)
        sys.stdout.flush()
        import os
        os._exit(0)
    expected = [run(j) for j in jobs]
    mism = []
    for t in range(T):
        for idx, got in results[t]:
            if got != expected[idx]:
                mism.append(dict(thread=t, job=dict(jobs[idx], text=jobs[idx]["text"][:400]), serial=str(expected[idx])[:300], concurrent=str(got)[:300]))
                if len(mism) >= 3:
                    break
    # after the race: every ring size up to the largest one requested, so that an entry of a lazily grown table that
    # was corrupted during the race is seen whichever index it sits at
    scan = []
    for n in range(int(q.get("scan_lo", 1)), int(q.get("scan_rings", 0)) + 1):
        try:
            scan.append(sf.encoder("C1" + "C" * (n + 1) + "1"))
        except Exception as e:  # noqa
            scan.append("exc:" + type(e).__name__)
    # what every (thread, job) returned, deduplicated, for comparison with a serial run in another process
    distinct = {}
    for t in range(T):
        for idx, got in results[t]:
            distinct.setdefault(idx, [])
            if got not in distinct[idx]:
                distinct[idx].append(got)
    json.dump(dict(file=sf.__file__, mismatches=mism, calls=sum(len(r) for r in results), alive=sum(t.is_alive() for t in ths),
                   ring_scan=scan, serial_after=expected, concurrent_distinct={str(k): v for k, v in distinct.items()}), sys.stdout)


if __name__ == "__main__":
    main()
