"""Cold-start concurrency for C19: a fresh interpreter whose very first translation calls are made by several
threads at once (behind a barrier, switch interval 1e-6 s), then the same calls serially in the same process.
stdin: {"jobs": [{kind, text, flags}], "threads": T, "rounds": R}   stdout: {"file":..., "mismatches": [...], "calls": n}"""
import json
import sys
import threading
import warnings


def main():
    warnings.simplefilter("ignore")
    q = json.load(sys.stdin)
    import selfies as sf
    jobs = q["jobs"]
    T = q["threads"]
    R = q["rounds"]

    def run(j, v=10000):
        """{v} in a job text is a per-call varying isotope (1000..1996): a stream of ever new bracket atoms, so that
        bounded caches keep evicting; results are compared after renaming it (10000..18998, a range no other number in an output falls into)"""
        fl = j.get("flags", {})
        text = j["text"].replace("{v}", str(v))
        try:
            if j["kind"] == "dec":
                r = sf.decoder(text, attribute=bool(fl.get("attribute")), compatible=bool(fl.get("compatible")))
            else:
                r = sf.encoder(text, strict=bool(fl.get("strict", True)), attribute=bool(fl.get("attribute")))
            if fl.get("attribute"):
                r = [r[0], [[a.index, a.token, [[x.index, x.token] for x in (a.attribution or [])]] for a in r[1]]]
            return json.loads(json.dumps(["ok", r]).replace(str(v), "V")) if "{v}" in j["text"] else ["ok", r]
        except Exception as e:  # noqa
            return ["exc", type(e).__name__]

    barrier = threading.Barrier(T)
    results = [[] for _ in range(T)]

    rotate = q.get("rotate", True)

    def worker(t):
        barrier.wait()
        n = 0
        for r in range(R):
            for k in range(len(jobs)):
                # rotate: every thread starts with a different job; otherwise all threads make the same
                # first-ever call at the same moment
                idx = (k + t) % len(jobs) if rotate else k
                n += 1
                results[t].append((idx, run(jobs[idx], 10000 + (n * 7 + t * 1301) % 8999)))

    sys.setswitchinterval(1e-6)
    ths = [threading.Thread(target=worker, args=(t,), daemon=True) for t in range(T)]
    for t in ths:
        t.start()
    for t in ths:
        t.join(120)
    sys.setswitchinterval(0.005)
    expected = [run(j) for j in jobs]
    mism = []
    for t in range(T):
        for idx, got in results[t]:
            if got != expected[idx]:
                mism.append(dict(thread=t, job=jobs[idx], serial=str(expected[idx])[:300], concurrent=str(got)[:300]))
                if len(mism) >= 3:
                    break
    # after the race: every ring size up to the largest one requested, so that an entry of a lazily grown table that
    # was corrupted during the race is seen whichever index it sits at
    scan = []
    for n in range(int(q.get("scan_lo", 1)), int(q.get("scan_rings", 0)) + 1):
        try:
            scan.append(sf.encoder("C1" + "C" * (n + 1) + "1"))
        except Exception as e:  # noqa
            scan.append("exc:" + type(e).__name__)
    # what every (thread, job) returned, deduplicated, for comparison with a serial run in another process
    distinct = {}
    for t in range(T):
        for idx, got in results[t]:
            distinct.setdefault(idx, [])
            if got not in distinct[idx]:
                distinct[idx].append(got)
    json.dump(dict(file=sf.__file__, mismatches=mism, calls=sum(len(r) for r in results), alive=sum(t.is_alive() for t in ths),
                   ring_scan=scan, serial_after=expected, concurrent_distinct={str(k): v for k, v in distinct.items()}), sys.stdout)


if __name__ == "__main__":
    main()
