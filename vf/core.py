"""Harness core: choice streams, results, per-shard accumulators, the Hypothesis driver.

Every generator in this framework is a pure function ``gen(ch: Chooser) -> case`` where ``case``
is a JSON-serialisable dict, and every oracle is a pure function ``evaluate(case) -> Result`` of
the case and the tree under /repo.  Hypothesis supplies the byte blob behind the Chooser, so every
random choice is made (and shrunk) by the library; the same generators can be driven by atheris.
"""
import collections
import hashlib
import json
import os
import signal
import sys
import time
import traceback

import hypothesis
from hypothesis import HealthCheck, Phase, given, settings, strategies as st

REPO = os.environ.get("VF_REPO", "/repo")
HERE = os.path.dirname(os.path.dirname(os.path.abspath(__file__)))


# --------------------------------------------------------------------------------------------
# results


class Fail:
    """A property violation observed on one case. ``sig`` names the root-cause class."""

    poisons_process = False   # set on a failure after which this process cannot evaluate further cases (threads that
    #                           wait for ever on a lock inside selfies): it is recorded as found, and the shard stops there

    def __init__(self, sig, **details):
        self.sig = sig
        self.details = details

    def __repr__(self):
        return "Fail(%s, %r)" % (self.sig, self.details)


class Result:
    def __init__(self, fail=None, nontrivial=False, classes=(), key=None, sample=None, skipped=None, extra=0):
        self.fail = fail
        self.nontrivial = nontrivial
        self.classes = classes
        self.key = key            # distinctness key (defaults to the canonical JSON of the case)
        self.sample = sample      # what to show in evidence (defaults to the case)
        self.skipped = skipped    # reason the case is outside the property's domain (counted)
        self.extra = extra        # further oracle evaluations made inside this case (batches)


class HarnessError(BaseException):
    """Something is wrong with the machinery (not with selfies). Exit status 2."""


class PropertyFailure(Exception):
    pass


class _AbortShrink(BaseException):
    pass


class Hang(BaseException):
    """Raised by the per-evaluation alarm. `where` names the innermost frame under REPO/selfies that was
    executing when the alarm fired (None if the time was being spent in the harness itself)."""

    def __init__(self, where=None):
        super().__init__(where)
        self.where = where


# --------------------------------------------------------------------------------------------
# choice stream


class Chooser:
    """Decodes a byte blob into structured choices. An exhausted stream yields the lowest
    alternative everywhere, so generators list the simplest alternative first."""

    __slots__ = ("b", "i", "n")

    def __init__(self, blob):
        self.b = blob
        self.i = 0
        self.n = len(blob)

    def _take(self, k):
        i = self.i
        if i + k <= self.n:
            self.i = i + k
            return int.from_bytes(self.b[i:i + k], "big")
        self.i = self.n
        if i >= self.n:
            return 0
        return int.from_bytes(self.b[i:self.n], "big")

    def exhausted(self):
        return self.i >= self.n

    def int(self, lo, hi):
        """uniform-ish integer in [lo, hi]"""
        span = hi - lo
        if span <= 0:
            return lo
        if span < 256:
            return lo + self._take(1) % (span + 1)
        if span < 65536:
            return lo + self._take(2) % (span + 1)
        return lo + self._take(5) % (span + 1)

    def below(self, n):
        return self.int(0, n - 1)

    def pick(self, seq):
        return seq[self.int(0, len(seq) - 1)]

    def bool(self, percent=50):
        """True with the given probability (in percent); False on an exhausted stream"""
        return (self._take(1) * 100 >> 8) >= 100 - percent if percent < 100 else True

    def weighted(self, pairs):
        """pairs: [(weight, item), ...] with integer weights; first item on exhaustion"""
        total = 0
        for w, _ in pairs:
            total += w
        r = self.int(0, total - 1)
        for w, item in pairs:
            if r < w:
                return item
            r -= w
        return pairs[-1][1]

    def shuffle(self, seq):
        seq = list(seq)
        for i in range(len(seq) - 1, 0, -1):
            j = self.int(0, i)
            seq[i], seq[j] = seq[j], seq[i]
        return seq

    def sample(self, seq, k):
        return self.shuffle(seq)[:k]

    def small(self, hi, percent_more=50):
        """geometric-ish small integer in [0, hi]"""
        n = 0
        while n < hi and self.bool(percent_more):
            n += 1
        return n


CHUNK = 64


def blob_strategy(max_bytes):
    """a list of fixed-size byte chunks with a uniformly drawn length (one large st.binary is
    pathological for the shrinker: its sort key is quadratic in the size of the value)"""
    k = max(1, max_bytes // CHUNK)
    one = st.binary(min_size=CHUNK, max_size=CHUNK)
    return st.integers(0, k).flatmap(lambda n: st.lists(one, min_size=n, max_size=n))


# --------------------------------------------------------------------------------------------
# accumulators


def jdump(x):
    return json.dumps(x, sort_keys=True, ensure_ascii=True, default=str)


def h64(s):
    return int.from_bytes(hashlib.blake2b(s.encode("utf-8", "surrogatepass"), digest_size=8).digest(), "big")


class Acc:
    """Per-shard counters; picklable through .export()."""

    MAX_SAMPLES = 12

    def __init__(self):
        self.evaluations = 0
        self.nontrivial = set()
        self.seen = 0
        self.classes = collections.Counter()
        self.samples = []
        self.class_samples = {}
        self.failures = {}        # sig -> dict(case, details, count)
        self.excluded = collections.Counter()
        self.skipped = collections.Counter()
        self.notes = collections.Counter()
        self.exhaustive = {}      # name -> description of completely enumerated sub-domains
        self.harness_errors = []

    def count(self, case, res):
        self.evaluations += 1 + getattr(res, "extra", 0)
        if res.skipped:
            self.skipped[res.skipped] += 1
        for c in res.classes:
            self.classes[c] += 1
            if c not in self.class_samples and len(self.class_samples) < 40:
                self.class_samples[c] = res.sample if res.sample is not None else case
        if res.nontrivial:
            k = res.key if res.key is not None else jdump(case)
            self.nontrivial.add(h64(k))
            if len(self.samples) < self.MAX_SAMPLES and (self.evaluations % 7 == 1 or len(self.samples) < 3):
                self.samples.append(res.sample if res.sample is not None else case)

    def add_failure(self, sig, case, fail):
        f = self.failures.get(sig)
        size = len(jdump(case))
        if f is None:
            self.failures[sig] = dict(case=case, details=fail.details, count=1, size=size)
        else:
            f["count"] += 1
            if size < f["size"]:
                f.update(case=case, details=fail.details, size=size)

    def export(self):
        return dict(
            evaluations=self.evaluations, nontrivial=list(self.nontrivial), classes=dict(self.classes),
            samples=self.samples, class_samples=self.class_samples, failures=self.failures,
            excluded=dict(self.excluded), skipped=dict(self.skipped), notes=dict(self.notes),
            exhaustive=self.exhaustive, harness_errors=self.harness_errors)


# --------------------------------------------------------------------------------------------
# shard context + Hypothesis driver


class Ctx:
    def __init__(self, module, tier, seed, shard, nshards, known_sigs, scale=1.0):
        self.module = module
        self.tier = tier
        self.seed = seed
        self.shard = shard
        self.nshards = nshards
        self.known_sigs = known_sigs     # list of open known-finding signatures for this property
        self.acc = Acc()
        self.scale = scale
        self.shrink_calls = 4000 if tier == "quick" else 20000
        self.shrink_s = 60 if tier == "quick" else 240
        self.eval_timeout = getattr(module, "EVAL_TIMEOUT", 60 if tier == "quick" else 300)

    # -- sizing
    def n(self, quick, thorough):
        v = quick if self.tier == "quick" else thorough
        return max(1, int(v * self.scale))

    def seed_for(self, name):
        return h64("%d/%s/%s/%d" % (self.seed, self.module.ID, name, self.shard)) % (2 ** 62)

    def is_known(self, sig):
        return sig in self.known_sigs

    # -- evaluation of one case (used by both the Hypothesis driver and enumerations)
    def evaluate(self, case):
        try:
            old = signal.signal(signal.SIGALRM, _alarm)
            signal.setitimer(signal.ITIMER_REAL, self.eval_timeout)
            try:
                return self.module.evaluate(case)
            finally:
                signal.setitimer(signal.ITIMER_REAL, 0)
                signal.signal(signal.SIGALRM, old)
        except Hang as h:
            # a time budget that is hit is inconclusive, never a violation - unless the property module says that
            # termination is part of what it checks (HANG_IS_VIOLATION) and the time was being spent inside selfies
            if h.where and getattr(self.module, "HANG_IS_VIOLATION", False):
                return Result(Fail("no_result_within_%ds@%s" % (self.eval_timeout, h.where), case=jdump(case)[:1500]))
            raise HarnessError("evaluation exceeded %d s (inside %s) on case %s" % (
                self.eval_timeout, h.where or "the harness", jdump(case)[:2000]))
        except HarnessError:
            raise
        except Exception:
            raise HarnessError("oracle raised on case %s\n%s" % (jdump(case)[:2000], traceback.format_exc()))

    poisoned = None

    def check(self, case):
        """evaluate + count + triage, for enumerations (no shrinking). Returns the Result."""
        if self.poisoned:
            self.acc.notes["not_run_after_" + self.poisoned] += 1
            return Result(skipped="process poisoned")
        res = self.evaluate(case)
        if res.fail is not None and res.fail.poisons_process:
            self.poisoned = res.fail.sig
        self.acc.count(case, res)
        if res.fail is not None:
            if self.is_known(res.fail.sig):
                self.acc.excluded[res.fail.sig] += 1
            else:
                self.acc.add_failure(res.fail.sig, case, res.fail)
        return res

    def drive(self, name, gen, n_examples, max_bytes=1500):
        """Run gen/evaluate under Hypothesis: generate n_examples cases, on the first failure whose
        signature is not an open known finding let Hypothesis shrink it (bounded), keep going
        never. Other unknown signatures met on the way are recorded unshrunk."""
        acc = self.acc
        if self.poisoned:
            acc.notes["drive_%s_not_run_after_%s" % (name, self.poisoned)] += 1
            return False
        state = dict(target=None, best=None, best_size=None, calls=0, t0=None)
        ctx = self
        seen = set()
        blob_status = {}

        @hypothesis.seed(self.seed_for(name))
        @settings(max_examples=n_examples, database=None, deadline=None, derandomize=False,
                  report_multiple_bugs=False, suppress_health_check=list(HealthCheck),
                  phases=[Phase.generate, Phase.shrink], print_blob=False)
        @given(blob_strategy(max_bytes))
        def test(blob):
            shrinking = state["target"] is not None
            if shrinking:
                state["calls"] += 1
                if state["calls"] > ctx.shrink_calls or time.time() - state["t0"] > ctx.shrink_s:
                    raise _AbortShrink()
            raw = b"".join(blob)
            if not shrinking:
                # Hypothesis may replay a blob it has already run: the verdict (valid / rejected as duplicate) must
                # be the same every time, or the engine reports the test as flaky
                bh = hash(raw)
                st_ = blob_status.get(bh)
                if st_ is not None:
                    if st_:
                        return
                    hypothesis.reject()
            case = gen(Chooser(raw))
            if case is None:
                if not shrinking:
                    acc.notes["generator_declined"] += 1
                    blob_status[bh] = True
                return
            if not shrinking:
                hk = h64(jdump(case))
                if hk in seen:
                    # Hypothesis' mutation of earlier examples often changes only bytes the generator
                    # did not consume: an identical case is neither evaluated nor counted
                    acc.notes["duplicate_cases_discarded"] += 1
                    blob_status[bh] = False
                    hypothesis.reject()
                seen.add(hk)
                blob_status[bh] = True
            res = ctx.evaluate(case)
            if not shrinking:
                acc.count(case, res)
            if res.fail is not None:
                sig = res.fail.sig
                if ctx.is_known(sig):
                    if not shrinking:
                        acc.excluded[sig] += 1
                    return
                if res.fail.poisons_process and not ctx.is_known(sig):
                    # nothing more can be evaluated in this process: record the case as it is and stop
                    ctx.poisoned = sig
                    if state["best"] is None:
                        acc.add_failure(sig, case, res.fail)
                    raise _AbortShrink()
                if state["target"] is None:
                    state["target"] = sig
                    state["t0"] = time.time()
                if sig == state["target"]:
                    size = len(jdump(case))
                    if state["best"] is None or size < state["best_size"]:
                        state["best"] = (case, res.fail)
                        state["best_size"] = size
                    raise PropertyFailure(sig)
                acc.add_failure(sig, case, res.fail)

        t_start = time.time()
        try:
            test()
        except PropertyFailure:
            pass
        except _AbortShrink:
            acc.notes["shrink_stopped_process_poisoned" if self.poisoned else "shrink_budget_exhausted"] += 1
        except hypothesis.errors.HypothesisException as e:
            if state["best"] is None:
                raise HarnessError("hypothesis error in %s: %r" % (name, e))
            acc.notes["hypothesis_%s" % type(e).__name__] += 1
        if os.environ.get("VF_DEBUG"):
            print("[shard %d] drive %s: %.1fs, %d evaluations, target=%s shrink_calls=%d" % (
                self.shard, name, time.time() - t_start, acc.evaluations, state["target"], state["calls"]), file=sys.stderr)
        if state["best"] is not None:
            case, fail = state["best"]
            acc.add_failure(state["target"], case, fail)
            acc.failures[state["target"]]["shrunk_by"] = "hypothesis"
        return state["best"] is None


def _alarm(signum, frame):
    where = None
    f = frame
    sdir = os.path.join(REPO, "selfies") + os.sep
    while f is not None:
        fn = f.f_code.co_filename
        if fn.startswith(sdir):
            where = "%s.%s" % (os.path.splitext(os.path.basename(fn))[0], f.f_code.co_name)
            break
        f = f.f_back
    raise Hang(where)


# --------------------------------------------------------------------------------------------
# calling into selfies


def selfies_frame_sig(exc):
    """'Type@module.function' of the innermost traceback frame that lives under REPO/selfies."""
    tb = exc.__traceback__
    where = None
    while tb is not None:
        fn = tb.tb_frame.f_code.co_filename
        if fn.startswith(os.path.join(REPO, "selfies")):
            mod = os.path.splitext(os.path.basename(fn))[0]
            where = "%s.%s" % (mod, tb.tb_frame.f_code.co_name)
        tb = tb.tb_next
    return "exc:%s@%s" % (type(exc).__name__, where or "?")


def call(fn, *args, expected=(), **kw):
    """Call into selfies. Returns ('ok', value) | ('err', ExceptionClass) for an expected
    exception class | ('exc', signature, repr) for anything else."""
    try:
        return ("ok", fn(*args, **kw))
    except expected as e:
        return ("err", type(e).__name__)
    except Hang:
        raise
    except RecursionError as e:
        return ("exc", selfies_frame_sig(e), "RecursionError")
    except Exception as e:  # noqa
        return ("exc", selfies_frame_sig(e), repr(e)[:300])


def assert_repo():
    import selfies
    f = os.path.abspath(selfies.__file__)
    if not f.startswith(os.path.abspath(REPO) + os.sep):
        raise HarnessError("selfies imported from %s, expected under %s" % (f, REPO))
    return f
