"""Fresh-interpreter answers for C11: a subprocess (other PYTHONHASHSEED, cold caches) that sets one table and
answers decode / encode queries. Usage: python -m vf.fresh  < json  > json"""
import json
import sys
import warnings


def main():
    warnings.simplefilter("ignore")
    import selfies as sf
    q = json.load(sys.stdin)
    out = dict(file=sf.__file__, dec={}, enc={})
    if q.get("table") is not None:
        sf.set_semantic_constraints(q["table"])
    for x in q.get("decode", []):
        try:
            out["dec"][x] = ["ok", sf.decoder(x)]
        except sf.DecoderError:
            out["dec"][x] = ["err"]
        except Exception as e:  # noqa
            out["dec"][x] = ["exc", type(e).__name__]
    for x in q.get("decode_compatible", []):
        try:
            out.setdefault("dec_compat", {})[x] = ["ok", sf.decoder(x, compatible=True)]
        except sf.DecoderError:
            out.setdefault("dec_compat", {})[x] = ["err"]
        except Exception as e:  # noqa
            out.setdefault("dec_compat", {})[x] = ["exc", type(e).__name__]
    for s in q.get("encode_strict", []):
        try:
            out.setdefault("enc_strict", {})[s] = ["ok", sf.encoder(s, strict=True)]
        except sf.EncoderError:
            out.setdefault("enc_strict", {})[s] = ["err"]
        except Exception as e:  # noqa
            out.setdefault("enc_strict", {})[s] = ["exc", type(e).__name__]
    for s in q.get("encode", []):
        try:
            out["enc"][s] = ["ok", sf.encoder(s, strict=False)]
        except sf.EncoderError:
            out["enc"][s] = ["err"]
        except Exception as e:  # noqa
            out["enc"][s] = ["exc", type(e).__name__]
    json.dump(out, sys.stdout)


if __name__ == "__main__":
    main()
