"""atheris target for C08/C09: bytes -> (Chooser -> structured text | raw utf-8) -> the property's own
evaluate(); a finding is written as a replayable case file (one per new signature), the campaign goes on."""
import json
import os
import sys
import warnings

import atheris

with atheris.instrument_imports(include=["selfies"]):
    import selfies  # noqa

warnings.simplefilter("ignore")

from vf.core import Chooser, h64, jdump  # noqa: E402

WHICH = os.environ.get("VF_FUZZ_PROP", "c08")
if WHICH == "c08":
    from vf.props import c08 as prop  # noqa: E402
else:
    from vf.props import c09 as prop  # noqa: E402

OUT = os.environ.get("VF_FUZZ_OUT", ".")
KNOWN = set(x for x in os.environ.get("VF_FUZZ_KNOWN", "").split("\n") if x)
stats = dict(runs=0, excluded=0, findings=0)
seen_sigs = set()


def flush():
    with open(os.path.join(OUT, "stats.json"), "w") as f:
        json.dump(stats, f)


def TestOneInput(data):
    stats["runs"] += 1
    if stats["runs"] % 1000 == 0:
        flush()
    if not data:
        return
    ch = Chooser(data)
    mode = ch.int(0, 3)
    if mode == 0:
        flags = ch.int(0, 3)
        s = data[2:].decode("utf-8", "replace")
        case = dict(s=s, table=0)
        case.update(prop.flags_case(flags))
    else:
        case = prop.gen_case(ch)
    res = prop.evaluate(case)
    if res.fail is not None:
        sig = res.fail.sig
        if sig in KNOWN:
            stats["excluded"] += 1
            return
        if sig not in seen_sigs:
            seen_sigs.add(sig)
            stats["findings"] += 1
            with open(os.path.join(OUT, "case-%016x.json" % h64(sig)), "w") as f:
                json.dump(case, f)
            flush()


def main():
    atheris.Setup(sys.argv, TestOneInput)
    try:
        atheris.Fuzz()
    finally:
        flush()


if __name__ == "__main__":
    main()
