"""G-AROM - aromatic systems (fused / bridged / cage topologies, standard and extended atom kinds) as AMol
objects, spelled in several atom orders by the independent writer of gen_mol."""
import itertools
import math

from vf import gen_mol as GM

# kind: (element, charge, h (None = organic-subset implicit), bracket, extra substituent)
KINDS2_STANDARD = {
    "c": ("C", 0, None, False, None), "n": ("N", 0, None, False, None), "o": ("O", 0, None, False, None),
    "s": ("S", 0, None, False, None), "p": ("P", 0, None, False, None), "[nH]": ("N", 0, 1, True, None),
    "n(R)": ("N", 0, None, False, "R"), "[n+](R)": ("N", 1, 0, True, "R"), "[nH+]": ("N", 1, 1, True, None),
    "c(R)": ("C", 0, None, False, "R"), "c(=O)": ("C", 0, None, False, "=O"), "[pH]": ("P", 0, 1, True, None),
    "p(R)": ("P", 0, None, False, "R"), "s(=O)": ("S", 0, None, False, "=O"), "p(=O)(R)": ("P", 0, None, False, "R=O"),
}
KINDS3_STANDARD = {"c": ("C", 0, None, False, None), "n": ("N", 0, None, False, None), "[n+]": ("N", 1, 0, True, None)}
KINDS2_EXTENDED = {
    "[c-]": ("C", -1, 0, True, None), "[c+]": ("C", 1, 0, True, None), "[cH-]": ("C", -1, 1, True, None), "[c]": ("C", 0, 0, True, None),
    "[cH]": ("C", 0, 1, True, None), "[n-]": ("N", -1, 0, True, None), "[o+]": ("O", 1, 0, True, None), "[s+]": ("S", 1, 0, True, None),
    "[se]": ("Se", 0, 0, True, None), "[te]": ("Te", 0, 0, True, None), "[te+]": ("Te", 1, 0, True, None), "[as]": ("As", 0, 0, True, None),
    "[si]": ("Si", 0, 0, True, None), "[siH]": ("Si", 0, 1, True, None), "[b-]": ("B", -1, 0, True, None), "[bH-]": ("B", -1, 1, True, None),
    "b": ("B", 0, None, False, None), "[n]": ("N", 0, 0, True, None), "[o]": ("O", 0, 0, True, None), "[c-](R)": ("C", -1, 0, True, "R"),
    "[nH2+]": ("N", 1, 2, True, None), "[c+](R)": ("C", 1, 0, True, "R"), "[al]": ("Al", 0, 0, True, None),
}
KINDS3_EXTENDED = {"b": ("B", 0, None, False, None), "[c-]": ("C", -1, 0, True, None), "[c+]": ("C", 1, 0, True, None),
                   "[si]": ("Si", 0, 0, True, None), "[b-]": ("B", -1, 0, True, None), "p": ("P", 0, None, False, None)}
PI_FREE_2 = ["o", "s", "[nH]", "n(R)", "c(=O)", "[pH]", "s(=O)", "p(=O)(R)"]


# ------------------------------------------------------------------------------------------ topologies


def fused_system(ch, max_rings=5):
    sizes = [6, 6, 6, 6, 5, 5, 7, 4, 3, 8]
    k = ch.pick(sizes)
    adj = {i: set() for i in range(k)}
    for i in range(k):
        adj[i].add((i + 1) % k)
        adj[(i + 1) % k].add(i)
    for _ in range(ch.int(0, max_rings)):
        w = ch.weighted([(6, "fuse"), (2, "bridge"), (1, "spiro_path")])
        if w == "fuse":
            edges = sorted((a, b) for a in adj for b in adj[a] if a < b and len(adj[a]) == 2 and len(adj[b]) == 2)
            if not edges:
                break
            a, b = ch.pick(edges)
            k = ch.pick(sizes)
            prev = a
            for _j in range(k - 2):
                n = len(adj)
                adj[n] = set()
                adj[prev].add(n)
                adj[n].add(prev)
                prev = n
            if k > 2 and prev != a:
                adj[prev].add(b)
                adj[b].add(prev)
        else:
            twos = sorted(a for a in adj if len(adj[a]) == 2)
            if len(twos) < 2:
                break
            a = ch.pick(twos)
            cands = [b for b in twos if b != a and b not in adj[a]]
            if not cands:
                continue
            b = ch.pick(cands)
            prev = a
            for _j in range(ch.int(0, 3)):
                n = len(adj)
                adj[n] = set()
                adj[prev].add(n)
                adj[n].add(prev)
                prev = n
            adj[prev].add(b)
            adj[b].add(prev)
    return adj


def icosahedron():
    phi = (1 + 5 ** .5) / 2
    pts = []
    for a in (-1, 1):
        for b in (-phi, phi):
            pts += [(0, a, b), (a, b, 0), (b, 0, a)]
    adj = {i: set() for i in range(12)}
    for i, j in itertools.combinations(range(12), 2):
        if abs(math.dist(pts[i], pts[j]) - 2) < 1e-6:
            adj[i].add(j)
            adj[j].add(i)
    return adj


def tetra():
    return {i: {j for j in range(4) if j != i} for i in range(4)}


def octa():
    return {i: {j for j in range(6) if j != i and j != (i + 3) % 6} for i in range(6)}


def truncate(P):
    Vs = [(u, v) for u in P for v in P[u]]
    idx = {p: i for i, p in enumerate(Vs)}
    adj = {i: set() for i in range(len(Vs))}
    for (u, v) in Vs:
        adj[idx[(u, v)]].add(idx[(v, u)])
        for w in P[u]:
            if w != v and w in P[v]:
                adj[idx[(u, v)]].add(idx[(u, w)])
    return adj


def prism(k):
    adj = {i: set() for i in range(2 * k)}
    for i in range(k):
        for a, b in ((i, (i + 1) % k), (k + i, k + (i + 1) % k), (i, k + i)):
            adj[a].add(b)
            adj[b].add(a)
    return adj


def moebius(k):
    n = 2 * k
    adj = {i: set() for i in range(n)}
    for i in range(n):
        for a, b in ((i, (i + 1) % n), (i, (i + k) % n)):
            adj[a].add(b)
            adj[b].add(a)
    return adj


def petersen():
    adj = {i: set() for i in range(10)}
    for i in range(5):
        for a, b in ((i, (i + 1) % 5), (i, i + 5), (5 + i, 5 + (i + 2) % 5)):
            adj[a].add(b)
            adj[b].add(a)
    return adj


def dodeca():
    ico = icosahedron()
    faces = [f for f in itertools.combinations(range(12), 3) if all(b in ico[a] for a, b in itertools.combinations(f, 2))]
    adj = {i: set() for i in range(len(faces))}
    for i, j in itertools.combinations(range(len(faces)), 2):
        if len(set(faces[i]) & set(faces[j])) == 2:
            adj[i].add(j)
            adj[j].add(i)
    return adj


def random_cubic(ch, n):
    """random (sub)cubic multigraph-free graph on n nodes by pairing stubs with retries"""
    adj = {i: set() for i in range(n)}
    for i in range(n):
        adj[i].add((i + 1) % n)
        adj[(i + 1) % n].add(i)
    free = [i for i in range(n)]
    free = ch.shuffle(free)
    while len(free) >= 2:
        a = free.pop()
        cands = [b for b in free if b not in adj[a]]
        if not cands:
            continue
        b = ch.pick(cands)
        free.remove(b)
        adj[a].add(b)
        adj[b].add(a)
    return adj


_CAGES = {}


def cage(name):
    if name not in _CAGES:
        _CAGES.update({"C60": truncate(icosahedron()), "trunc_tetra": truncate(tetra()), "trunc_octa": truncate(octa()),
                       "C20": dodeca(), "petersen": petersen(), "K4": tetra()})
        for k in (3, 4, 5, 7):
            _CAGES["prism%d" % k] = prism(k)
        for k in (3, 4, 5):
            _CAGES["moebius%d" % k] = moebius(k)
    return {a: set(b) for a, b in _CAGES[name].items()}


CAGE_NAMES = ["C60", "trunc_tetra", "trunc_octa", "C20", "petersen", "K4", "prism3", "prism4", "prism5", "prism7", "moebius3", "moebius4", "moebius5"]


# ------------------------------------------------------------------------------------------ molecules


def build(adj, kinds):
    """AMol for a ring system with the given kind per node. Returns (mol, ring_nodes)"""
    m = GM.AMol()
    table2 = dict(KINDS2_STANDARD, **KINDS2_EXTENDED)
    table3 = dict(KINDS3_STANDARD, **KINDS3_EXTENDED)
    nodes = sorted(adj)
    for x in nodes:
        k = kinds[x]
        el, q, h, br, extra = (table3 if len(adj[x]) >= 3 and k in table3 else table2)[k]
        i = m.add_atom(el, 99)
        a = m.atoms[i]
        a.update(arom=True, charge=q, h=h, bracket=br, kind=k)
    for x in nodes:
        for y in adj[x]:
            if x < y:
                m.add_bond(x, y, 1.5)
    for x in nodes:
        k = kinds[x]
        extra = (table3 if len(adj[x]) >= 3 and k in table3 else table2)[k][4]
        if extra in ("R", "R=O"):
            j = m.add_atom("C", 4)
            m.add_bond(x, j, 1)
        if extra in ("=O", "R=O"):
            j = m.add_atom("O", 2)
            m.add_bond(x, j, 2)
    return m


def gen_kinds(ch, adj, extended=False):
    kinds = {}
    two = sorted(KINDS2_STANDARD)
    three = sorted(KINDS3_STANDARD)
    p_hetero = ch.pick([10, 25, 45])
    for x in sorted(adj):
        d = len(adj[x])
        if d >= 3:
            kinds[x] = "c" if not ch.bool(p_hetero) else ch.pick(three + (sorted(KINDS3_EXTENDED) if extended else []))
        else:
            if not ch.bool(p_hetero + 10):
                kinds[x] = "c"
            elif extended and ch.bool(50):
                kinds[x] = ch.pick(sorted(KINDS2_EXTENDED))
            else:
                kinds[x] = ch.pick(two)
    return kinds


def gen_system(ch, extended=False, allow_cage=True):
    w = ch.weighted([(8, "fused"), (2 if allow_cage else 0, "cage"), (1 if allow_cage else 0, "cubic")])
    if w == "fused":
        adj = fused_system(ch)
        name = "fused"
    elif w == "cage":
        name = ch.pick(CAGE_NAMES)
        adj = cage(name)
    else:
        n = 2 * ch.int(4, 30)
        adj = random_cubic(ch, n)
        name = "cubic%d" % n
    kinds = gen_kinds(ch, adj, extended)
    if name != "fused" and ch.bool(60):
        kinds = {x: "c" for x in adj}      # all-carbon cages: fullerene-like
    return name, adj, kinds
