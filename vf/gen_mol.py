"""R3 / G-MOL / G-SPELL - abstract molecules and an independent SMILES writer.

A molecule is generated as a labelled graph (AMol); `write` turns it into one of its many SMILES
spellings under drawn choices and returns the string together with the ground truth *in written
atom order* (what atom i is, which bonds exist, mark directions, the written neighbour order of every
chiral atom).  Nothing here imports selfies.
"""
from vf.refsmiles import ELEMENTS, ORGANIC, flip, parity

VALENCE = {"C": 4, "N": 3, "O": 2, "S": 2, "P": 3, "B": 3, "F": 1, "Cl": 1, "Br": 1, "I": 1}
HYPER = {"S": [2, 4, 6], "P": [3, 5], "N": [3], "Cl": [1], "I": [1]}
METALS = ["Fe", "Cu", "Zn", "Na", "Pt", "Sn", "Si", "Se", "Xe", "Al", "Li", "U", "Te", "As", "Ge", "Co", "H"]
ELEMENT_LIST = sorted(ELEMENTS)


class AMol:
    def __init__(self):
        self.atoms = []     # dict(el, iso, h, charge, chiral, hand, arom, cls, bracket)
        self.adj = {}       # node -> [nbr nodes]
        self.order = {}     # frozenset({a,b}) -> 1 | 2 | 3 | 1.5
        self.mark = {}      # (a, b) -> '/' | '\\'   direction seen walking a -> b (stored once per bond)
        self.contra = set() # frozenset bonds: if written as a ring closure with marks at both digits, write the SAME
                            # character at both ends (the two ends then contradict each other; accepted by readers)
        self.free = []      # remaining valence budget (generation only)

    def add_atom(self, el, budget):
        self.atoms.append(dict(el=el, iso=None, h=None, charge=0, chiral=False, hand=0, arom=False, cls=None, bracket=False))
        self.adj[len(self.atoms) - 1] = []
        self.free.append(budget)
        return len(self.atoms) - 1

    def add_bond(self, a, b, o):
        self.adj[a].append(b)
        self.adj[b].append(a)
        self.order[frozenset((a, b))] = o
        cost = 1 if o == 1.5 else o
        self.free[a] -= cost
        self.free[b] -= cost

    def bond_sum(self, i):
        s = 0
        for j in self.adj[i]:
            o = self.order[frozenset((i, j))]
            s += o
        return s

    def mark_dir(self, a, b):
        if (a, b) in self.mark:
            return self.mark[(a, b)]
        if (b, a) in self.mark:
            return flip(self.mark[(b, a)])
        return None

    def connected(self, a, b):
        seen = {a}
        st = [a]
        while st:
            x = st.pop()
            for y in self.adj[x]:
                if y not in seen:
                    if y == b:
                        return True
                    seen.add(y)
                    st.append(y)
        return b in seen


def _pick_element(ch):
    return ch.weighted([(12, "C"), (3, "N"), (3, "O"), (2, "S"), (1, "P"), (1, "B"), (1, "F"), (1, "Cl"), (1, "Br"), (1, "I")])


def _budget(ch, el):
    if el in HYPER and ch.bool(30):
        return ch.pick(HYPER[el])
    return VALENCE[el]


def gen_molecule(ch, max_atoms=20, stereo=50, brackets=30, aromatic=20, fragments=15, rings=8, hubs=False):
    """percent knobs: stereo (chirality + marks), brackets (isotopes/charges/H/metals), aromatic rings"""
    m = AMol()
    n = ch.int(1, max_atoms)
    for i in range(n):
        if i and ch.exhausted():
            break
        if hubs and ch.bool(45):
            el = ch.pick(["S", "P", "S", "P", "N"])        # atoms that can carry 5-6 bonds: several rings AND branches
            idx = m.add_atom(el, {"S": 6, "P": 5, "N": 5}[el])
        else:
            el = _pick_element(ch)
            idx = m.add_atom(el, _budget(ch, el))
        if i == 0:
            continue
        if ch.bool(fragments) and i > 1:
            continue      # starts a new fragment
        lo = 0
        cands = [j for j in range(lo, idx) if m.free[j] >= 1]
        if not cands or m.free[idx] < 1:
            continue
        j = ch.pick(cands[-3:]) if ch.bool(70) else ch.pick(cands)
        o = 1
        if m.free[j] >= 2 and m.free[idx] >= 2 and ch.bool(22):
            o = 2
            if m.free[j] >= 3 and m.free[idx] >= 3 and ch.bool(25):
                o = 3
        m.add_bond(idx, j, o)
    n = len(m.atoms)
    # extra ring edges
    for _ in range(ch.int(0, rings)):
        if n < 3:
            break
        a, b = ch.below(n), ch.below(n)
        if a == b or b in m.adj[a] or m.free[a] < 1 or m.free[b] < 1 or not m.connected(a, b):
            continue
        o = 2 if (m.free[a] >= 2 and m.free[b] >= 2 and ch.bool(15)) else 1
        m.add_bond(a, b, o)
    # aromatic rings as substituents / standalone
    if aromatic and ch.bool(aromatic):
        if ch.bool(30):
            _add_biaryl(ch, m)
        else:
            for _ in range(ch.int(1, 2)):
                _add_aromatic_ring(ch, m)
    n = len(m.atoms)
    # bracket decorations
    for i in range(n):
        a = m.atoms[i]
        if a["arom"] or not ch.bool(brackets):
            continue
        w = ch.weighted([(3, "iso"), (4, "charge"), (3, "h"), (3, "metal"), (1, "class"), (1, "plain"), (1, "any")])
        a["bracket"] = True
        used = m.bond_sum(i)
        if w == "iso":
            a["iso"] = ch.pick([2, 13, 14, 15, 18, 0, 1, 235, 100])
            a["h"] = ch.int(0, max(0, min(3, m.free[i])))
        elif w == "charge":
            a["charge"] = ch.weighted([(4, 1), (4, -1), (2, 2), (2, -2), (1, 3), (1, -3), (1, 10), (1, 11), (1, -12), (1, 4)])
            a["h"] = ch.int(0, 1) if m.free[i] >= 1 else 0
        elif w == "h":
            a["h"] = ch.int(0, max(0, min(4, m.free[i])))
            if ch.bool(10):
                a["h"] = ch.int(0, 9)
        elif w == "metal":
            a["el"] = ch.pick(METALS)
            a["h"] = 0
            if ch.bool(40):
                a["charge"] = ch.pick([1, 2, 3, -1, -2, 4, 10, -3])
        elif w == "class":
            a["cls"] = ch.int(0, 120)
            a["h"] = max(0, m.free[i]) if a["el"] == "C" else 0
        elif w == "any":
            a["el"] = ch.pick(ELEMENT_LIST)
            a["h"] = ch.int(0, 2)
            a["iso"] = ch.pick([None, None, 7, 200])
            a["charge"] = ch.pick([0, 0, 1, -1, 2])
        else:
            a["h"] = 0
    # chirality
    if stereo:
        for i in range(n):
            a = m.atoms[i]
            if a["arom"]:
                continue
            deg = len(m.adj[i])
            if deg >= 2 and ch.bool(stereo if deg >= 3 else stereo // 3):
                if not a["bracket"]:
                    a["bracket"] = True
                    left = max(0, m.free[i]) if a["el"] in VALENCE else 0
                    a["h"] = min(left, 1) if deg + 1 <= 4 else 0
                    if a["h"] is None:
                        a["h"] = 0
                if (a["h"] or 0) > 1:
                    continue
                a["chiral"] = True
                a["hand"] = ch.int(0, 1)
        # directional marks
        for key, o in list(m.order.items()):
            if o == 2 and ch.bool(stereo + 20):
                x, y = tuple(key)
                for p, q in ((x, y), (y, x)):
                    for z in m.adj[p]:
                        if z != q and m.order[frozenset((p, z))] == 1 and ch.bool(60):
                            if (p, z) not in m.mark and (z, p) not in m.mark:
                                m.mark[(p, z)] = ch.pick("/\\")
        for (x, y) in list(m.mark):
            if ch.bool(25):
                m.contra.add(frozenset((x, y)))
        if ch.bool(stereo // 3):
            keys = [k for k, o in m.order.items() if o == 1]
            for _ in range(ch.int(1, 3)):
                if keys:
                    x, y = tuple(ch.pick(keys))
                    if (x, y) not in m.mark and (y, x) not in m.mark:
                        m.mark[(x, y)] = ch.pick("/\\")
    return m


AROM_RINGS = [
    ["c", "c", "c", "c", "c", "c"], ["c", "c", "c", "c", "c", "n"], ["c", "c", "n", "c", "c", "n"], ["c", "n", "c", "n", "c", "n"],
    ["c", "c", "c", "c", "o"], ["c", "c", "c", "c", "s"], ["c", "c", "c", "c", "[nH]"], ["c", "c", "n", "c", "[nH]"],
    ["c", "c", "c", "n", "o"], ["c", "c", "c", "n", "s"], ["c", "c", "c", "c", "[se]"], ["c", "n", "c", "c", "n(R)"],
]


def _add_aromatic_ring(ch, m):
    """a kekulizable monocyclic aromatic ring (standard kinds), optionally bonded to an existing atom"""
    kinds = ch.pick(AROM_RINGS)
    r = ch.below(len(kinds))
    kinds = kinds[r:] + kinds[:r]
    ids = []
    for k in kinds:
        el = {"c": "C", "n": "N", "o": "O", "s": "S", "[nH]": "N", "[se]": "Se", "n(R)": "N"}[k]
        i = m.add_atom(el, 9)
        a = m.atoms[i]
        a["arom"] = True
        if k == "[nH]":
            a["bracket"] = True
            a["h"] = 1
        if k == "[se]":
            a["bracket"] = True
            a["h"] = 0
        a["kind"] = k
        ids.append(i)
    for x in range(len(ids)):
        m.add_bond(ids[x], ids[(x + 1) % len(ids)], 1.5)
    # substituent required on n(R); optional link from a ring carbon to the rest
    for i, k in zip(ids, kinds):
        if k == "n(R)":
            j = m.add_atom("C", 4)
            m.add_bond(i, j, 1)
    carbons = [i for i, k in zip(ids, kinds) if k == "c"]
    others = [j for j in range(ids[0]) if m.free[j] >= 1 and not m.atoms[j]["arom"]]
    if others and carbons and ch.bool(75):
        c = ch.pick(carbons)
        carbons.remove(c)       # one substituent per aromatic carbon, or it cannot take part in the pi system
        m.add_bond(c, ch.pick(others), 1)
    if carbons and ch.bool(30):
        j = m.add_atom(ch.pick(["F", "Cl", "O", "N", "C"]), 1)
        m.add_bond(ch.pick(carbons), j, 1)


def _add_biaryl(ch, m):
    """two aromatic six-rings joined by a SINGLE bond between aromatic atoms (biphenyl), optionally closed into a
    third ring by a second direct bond (biphenylene) or a bridging atom (fluorene, carbazole, dibenzofuran ...):
    in many spellings the aryl-aryl single bond is then a ring closure that needs an explicit '-' on one side."""
    rings = []
    for _ in range(2):
        kinds = ["c"] * 6
        if ch.bool(30):
            kinds[ch.int(2, 5)] = "n"
        ids = []
        for k in kinds:
            i = m.add_atom("C" if k == "c" else "N", 9)
            m.atoms[i].update(arom=True, kind=k)
            ids.append(i)
        for x in range(6):
            m.add_bond(ids[x], ids[(x + 1) % 6], 1.5)
        rings.append(ids)
    a, b = rings
    m.add_bond(a[0], b[0], 1)
    w = ch.weighted([(3, "open"), (2, "direct"), (4, "bridge")])
    if w == "direct":
        m.add_bond(a[1], b[1], 1)
    elif w == "bridge":
        el = ch.pick(["C", "O", "N", "S", "C"])
        x = m.add_atom(el, VALENCE[el])
        m.add_bond(a[1], x, 1)
        m.add_bond(b[1], x, 1)
    others = [j for j in range(a[0]) if m.free[j] >= 1 and not m.atoms[j]["arom"]]
    free_c = [i for i in a[2:] + b[2:] if m.atoms[i]["kind"] == "c"]
    if others and free_c and ch.bool(50):
        m.add_bond(ch.pick(free_c), ch.pick(others), 1)


# ------------------------------------------------------------------------------------------ writer


def atom_text(a, tag, ch, variants=True, standard=False):
    """SMILES spelling of one atom. `standard` picks the first alternative everywhere."""
    pick = (lambda xs: xs[0]) if (standard or ch is None) else ch.pick
    if a["arom"]:
        base = a["el"].lower()
        if not a["bracket"] and a["charge"] == 0 and a["iso"] is None and not tag:
            return base
    else:
        base = a["el"]
        if not a["bracket"] and not tag and a["el"] in ORGANIC:
            return base
    s = "["
    if a["iso"] is not None:
        iso = str(a["iso"])
        if variants:
            iso = pick(["", "", "0", "00"]) + iso
        s += iso
    s += base + (tag or "")
    h = a["h"] or 0
    if h == 1:
        s += pick(["H", "H1"]) if variants else "H"
    elif h > 1:
        s += "H%d" % h
    elif variants and pick([0, 0, 0, 1]):
        s += "H0"
    c = a["charge"]
    if c:
        sign = "+" if c > 0 else "-"
        n = abs(c)
        forms = ["%s%d" % (sign, n)]
        if n == 1:
            forms.insert(0, sign)
        elif n <= 4:
            forms.append(sign * n)
        s += pick(forms) if variants else forms[0]
    elif variants and pick([0] * 11 + [1]):
        s += pick(["+0", "-0"])
    if a.get("cls") is not None:
        s += ":%d" % a["cls"]
    elif variants and pick([0] * 15 + [1]):
        s += ":%d" % pick([0, 1, 7, 42, 123])
    return s + "]"


def write(m, ch, ch_atoms=None, variants=True, label_style=None, digit_after_branch=6):
    """one random spelling. ch decides structure (roots, neighbour permutations, ring digit interleaving,
    labels, where bond symbols go); ch_atoms (default ch) decides how atoms are spelled.
    Returns dict(smiles, order, truth)."""
    if ch_atoms is None:
        ch_atoms = ch
    n = len(m.atoms)
    visited = set()
    plans = {}
    closing = {}     # frozenset -> (opened_at, closed_at)
    all_order = []
    roots = []

    def plan_from(root):
        # iterative DFS with a drawn neighbour permutation at every atom
        stack = [(root, None, None)]
        while stack:
            x, parent, _ = stack.pop()
            if x in visited:
                continue
            visited.add(x)
            all_order.append(x)
            plans[x] = dict(parent=parent, kids=[])
            if parent is not None:
                plans[parent]["kids"].append(x)
            nb = [y for y in m.adj[x] if y != parent]
            nb = ch.shuffle(nb)
            for y in nb:
                if y in visited:
                    key = frozenset((x, y))
                    if key not in closing:
                        closing[key] = (y, x)
            # push in reverse so that nb[0] is visited first
            for y in reversed(nb):
                if y not in visited:
                    stack.append((y, x, None))

    starts = ch.shuffle(list(range(n)))
    if not ch.bool(50):
        starts = list(range(n))
    for r in starts:
        if r not in visited:
            roots.append(r)
            plan_from(r)
    # a node pushed by several parents is claimed by the first pop: kids lists are right by construction,
    # but an edge to a node that was already claimed elsewhere is a ring closure
    for x in range(n):
        for y in m.adj[x]:
            if plans[y]["parent"] != x and plans[x]["parent"] != y:
                key = frozenset((x, y))
                if key not in closing:
                    closing[key] = None
    index_of = {node: i for i, node in enumerate(all_order)}
    for key in list(closing):
        a, b = tuple(key)
        closing[key] = (a, b) if index_of[a] < index_of[b] else (b, a)
    ring_events = {x: [] for x in range(n)}
    for key, (op, cl) in closing.items():
        ring_events[op].append(key)
        ring_events[cl].append(key)
    for x in ring_events:
        if len(ring_events[x]) > 1:
            ring_events[x] = ch.shuffle(sorted(ring_events[x], key=lambda k: sorted(k)))

    style = label_style or ch.weighted([(6, "smallest"), (2, "reuse"), (2, "any"), (1, "percent"), (1, "zero")])
    free_labels = list(range(1, 100))
    label_of = {}
    label_txt = {}
    where_sym = {}
    contra_written = {}
    pieces = []
    nbr_written = {}
    tags = {}
    explicit_single = 6 if variants else 0
    # how often an aromatic bond is spelled ':' (sometimes all of them: a reader that takes ':' for a single bond
    # still kekulizes a ring in which only a few bonds are spelled out)
    colon = ch.weighted([(8, 12), (1, 60), (1, 100)]) if any(a["arom"] for a in m.atoms) else 0

    def new_label():
        if not free_labels:
            return None
        if style == "smallest":
            lab = free_labels[0]
        elif style == "reuse":
            lab = free_labels[0]
        elif style == "any":
            lab = ch.pick(free_labels)
        elif style == "percent":
            lab = ch.pick(free_labels[:12])
        else:
            lab = 0 if 0 not in label_of.values() and ch.bool(50) else free_labels[0]
        if lab in free_labels:
            free_labels.remove(lab)
        return lab

    ok = [True]
    nonstandard = [False]

    def emit_atom(x, parent, pre_k=0, pre_d=0):
        """atom text; the ring digits are written by emit_digits - after the first pre_k (parenthesised) branches
        when pre_k > 0, which most readers (and selfies) accept although OpenSMILES puts ring bonds first"""
        a = m.atoms[x]
        nb = []
        if parent is not None:
            nb.append(parent)
        if a["chiral"] and (a["h"] or 0) >= 1:
            nb.append("H")
        kids = plans[x]["kids"]
        evs = ring_events[x]
        for key in evs[:pre_d]:
            nb.append([y for y in key if y != x][0])
        nb += kids[:pre_k]
        for key in evs[pre_d:]:
            nb.append([y for y in key if y != x][0])
        nb += kids[pre_k:]
        tag = None
        if a["chiral"]:
            widx = [("H" if y == "H" else index_of[y]) for y in nb]
            canon = (["H"] if "H" in widx else []) + sorted(y for y in widx if y != "H")
            p = parity(widx, canon)
            tag = "@" if (a["hand"] ^ p) == 0 else "@@"
            nbr_written[index_of[x]] = widx
            tags[index_of[x]] = tag
        pieces.append(atom_text(a, tag, ch_atoms, variants))
        return kids

    def emit_digits(x, lo=0, hi=None):
        for key in ring_events[x][lo:hi]:
            other = [y for y in key if y != x][0]
            o = m.order[key]
            opening = key not in label_of
            if opening:
                lab = new_label()
                if lab is None:
                    ok[0] = False
                    lab = 1
                label_of[key] = lab
                if style == "percent" or lab >= 10:
                    label_txt[key] = "%%%02d" % lab
                else:
                    label_txt[key] = str(lab)
            lab = label_of[key]
            both_arom = m.atoms[x]["arom"] and m.atoms[other]["arom"]
            bc = ""
            mk = m.mark_dir(x, other)
            if o == 2 or o == 3:
                w = where_sym.setdefault(key, ch.pick(["open", "close", "both"]))
                if w == "both" or (w == "open") == opening:
                    bc = "=" if o == 2 else "#"
            elif o == 1.5:
                w = where_sym.setdefault(key, ch.pick(["open", "close", "both"]) if ch.bool(max(colon, 50) if colon > 12 else 50) else "none")
                if w == "both" or (w == "open" and opening) or (w == "close" and not opening):
                    bc = ":"
            elif mk:
                w = where_sym.setdefault(key, ch.pick(["open", "close", "both"]))
                if w == "both" or (w == "open") == opening:
                    bc = mk
                if w == "both" and key in m.contra:
                    if opening:
                        contra_written[key] = mk
                    else:
                        bc = contra_written[key]      # same character as at the opening digit
            elif both_arom:
                w = where_sym.setdefault(key, ch.pick(["open", "close", "both"]))
                if w == "both" or (w == "open") == opening:
                    bc = "-"
            elif explicit_single and ch.bool(explicit_single):
                w = where_sym.setdefault(key, ch.pick(["open", "close", "both"]))
                if w == "both" or (w == "open") == opening:
                    bc = "-"
            pieces.append(bc + label_txt[key])
            if not opening:
                if lab != 0:
                    if style == "reuse":
                        free_labels.insert(0, lab)
                    else:
                        free_labels.append(lab)
                        free_labels.sort()

    # iterative emission (deep chains must not recurse)
    for k, r in enumerate(roots):
        if k:
            pieces.append(".")
        stack = [("atom", r, None)]
        while stack:
            item = stack.pop()
            if item[0] == "text":
                pieces.append(item[1])
                continue
            if item[0] == "digits":
                emit_digits(item[1], item[2], item[3])
                continue
            _, x, parent = item
            nk = len(plans[x]["kids"])
            pre_k = 0
            pre_d = 0
            if digit_after_branch and ring_events[x] and nk >= 1 and ch.bool(digit_after_branch):
                pre_k = ch.int(1, nk)      # pre_k == nk: every neighbour in parentheses, the digits come last
                if len(ring_events[x]) >= 2 and ch.bool(50):
                    pre_d = ch.int(1, len(ring_events[x]) - 1)   # some digits first, the rest after the branches
                nonstandard[0] = True
            kids = emit_atom(x, parent, pre_k, pre_d)
            todo = []
            if pre_k == 0:
                todo.append(("digits", x, 0, None))
            elif pre_d:
                todo.append(("digits", x, 0, pre_d))
            for i, y in enumerate(kids):
                last = i == len(kids) - 1 and pre_k < len(kids)
                o = m.order[frozenset((x, y))]
                both_arom = m.atoms[x]["arom"] and m.atoms[y]["arom"]
                mk = m.mark_dir(x, y)
                if o == 2:
                    bc = "="
                elif o == 3:
                    bc = "#"
                elif o == 1.5:
                    bc = ":" if ch.bool(colon) else ""
                elif mk:
                    bc = mk
                elif both_arom:
                    bc = "-"
                elif explicit_single and ch.bool(explicit_single):
                    bc = "-"
                else:
                    bc = ""
                if not last:
                    todo.append(("text", "(" + bc))
                    todo.append(("atom", y, x))
                    todo.append(("text", ")"))
                    if pre_k and i == pre_k - 1:
                        todo.append(("digits", x, pre_d, None))
                else:
                    todo.append(("text", bc))
                    todo.append(("atom", y, x))
            for t in reversed(todo):
                stack.append(t)
    if not ok[0]:
        return None
    smiles = "".join(pieces)
    # ground truth in written indices
    atoms = []
    for node in all_order:
        a = m.atoms[node]
        bracketed = a["bracket"] or a["chiral"] or (not a["arom"] and a["el"] not in ORGANIC) or \
            (a["arom"] and (a["charge"] != 0 or a["iso"] is not None))
        atoms.append(dict(el=a["el"], iso=a["iso"], h=((a["h"] or 0) if bracketed else None), charge=a["charge"],
                          chir=tags.get(index_of[node]), arom=a["arom"], kind=a.get("kind")))
    bonds = []
    for key, o in m.order.items():
        a, b = tuple(key)
        i, j = sorted((index_of[a], index_of[b]))
        bonds.append([i, j, o])
    marks = []
    marks_raw = []      # ring bonds written with the same character at both digits: [i, j, mark at i, mark at j]
    for (a, b), c in m.mark.items():
        i, j = index_of[a], index_of[b]
        key = frozenset((a, b))
        if key in contra_written:
            marks_raw.append([min(i, j), max(i, j), contra_written[key], contra_written[key]])
            continue
        marks.append([i, j, c] if i < j else [j, i, flip(c)])
    return dict(smiles=smiles, order=all_order,
                truth=dict(atoms=atoms, bonds=sorted(bonds), marks=sorted(marks), marks_raw=sorted(marks_raw),
                           nbrs={str(i): v for i, v in nbr_written.items()},
                           ring_closures=len(closing), fragments=len(roots), digit_after_branch=nonstandard[0]))


def usage(truth):
    """{table key: max over atoms of (bond-order sum with aromatic bonds counted as single, + explicit H)} and
    the per-atom list [(key, sigma+H, is aromatic)]"""
    n = len(truth["atoms"])
    s = [0] * n
    for i, j, o in truth["bonds"]:
        c = 1 if o == 1.5 else o
        s[i] += c
        s[j] += c
    per_atom = []
    for i, a in enumerate(truth["atoms"]):
        key = a["el"] if a["charge"] == 0 else "%s%+d" % (a["el"], a["charge"])
        per_atom.append((key, s[i] + (a["h"] or 0), a["arom"]))
    return per_atom


# ------------------------------------------------------------------------------------------ self test


def selftest():
    """R1 o R3 identity on generated molecules (ground truth == what the independent reader reads)"""
    import random
    from vf import refsmiles
    from vf.core import Chooser
    rnd = random.Random(12345)
    n_chiral = n_marks = n_rings = 0
    for t in range(400):
        ch = Chooser(rnd.randbytes(rnd.randint(50, 900)))
        m = gen_molecule(ch, max_atoms=rnd.choice([6, 14, 30]))
        w = write(m, ch)
        if w is None:
            continue
        tr = w["truth"]
        r = refsmiles.read(w["smiles"])
        assert len(r.atoms) == len(tr["atoms"]), w["smiles"]
        for i, a in enumerate(tr["atoms"]):
            b = r.atoms[i]
            assert (b["el"], b["iso"], b["h"], b["charge"], b["chir"], b["arom"]) == \
                (a["el"], a["iso"], a["h"], a["charge"], a["chir"], a["arom"]), (w["smiles"], i, a, b)
        assert sorted([i, j, o] for (i, j), o in r.bonds.items()) == tr["bonds"], (w["smiles"], tr["bonds"], r.bonds)
        mdall = refsmiles.mark_dirs(r)
        md = {k: v[0] for k, v in mdall.items() if v[1] is None}
        want = {(i, j): frozenset([c]) for i, j, c in tr["marks"]}
        assert md == want, (w["smiles"], md, want)
        raw = {k: v[1] for k, v in mdall.items() if v[1] is not None}
        assert raw == {(i, j): (a, b) for i, j, a, b in tr["marks_raw"]}, (w["smiles"], raw, tr["marks_raw"])
        for k, nb in tr["nbrs"].items():
            assert r.nbrs[int(k)] == nb, (w["smiles"], k, nb, r.nbrs[int(k)])
            n_chiral += 1
        n_marks += len(want)
        n_rings += tr["ring_closures"]
    assert n_chiral > 50 and n_marks > 50 and n_rings > 100, (n_chiral, n_marks, n_rings)
