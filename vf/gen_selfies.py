"""G-SELFIES - generators of SELFIES symbol strings (token lists).

The state-aware generator runs a light incremental simulation of the documented derivation (Sim)
next to generation and draws the next symbol conditional on the state, so that long live strings with
deep nesting, many rings and ring/bond collisions are ordinary cases.  Sim only steers; it is not an
oracle (any symbol sequence is a legal input), so an inaccuracy in it can only cost liveliness, which
is measured through the class histogram in the evidence.
"""
import os

from vf.core import HERE
from vf.refderive import BRANCH, IDX, INDEX, INF, ORDER, RING, capacity, parse_atom_symbol
from vf.refsmiles import ELEMENTS

ELEMENT_LIST = sorted(ELEMENTS)
BOND_PREFIX = [(10, ""), (4, "="), (2, "#"), (1, "/"), (1, "\\")]
LIVE_ATOMS = ["C", "C", "C", "C", "N", "N", "S", "P", "B", "O", "C", "Si", "Se", "Fe", "Sn"]
DEAD_ATOMS = ["F", "Cl", "Br", "I", "H", "O", "O"]
BRACKET_ATOMS = ["C@H1", "C@@H1", "C@", "C@@", "13C", "13CH1", "N+1", "O-1", "NH1", "CH2", "CH1", "S+1", "P-1", "B-1",
                 "N@+1", "C-1", "C+1", "NH1+1", "14C@@", "2H", "18O", "OH0", "CH0", "P@", "S@@", "Si@H1", "Xe-2",
                 "17O@@H1-2", "N-1", "O+1", "Cu+2", "Fe+3", "CH3", "NH2", "CH4", "Sn+4", "N@@H1+1", "015N"]
RING_PREFIX = [(10, ""), (3, "="), (1, "#"), (1, "-/"), (1, "\\/"), (1, "/-"), (1, "//"), (1, "\\\\"), (1, "/\\"), (1, "\\-"), (1, "-\\")]
UNKNOWN = ["[Xx]", "[Branch4]", "[Ring0]", "[c]", "[CH]", "[C+0]", "[Expl=Ring1]", "[Branch1_2]", "[Cexpl]", "[]",
           "[--Ring1]", "[C+]", "[CHH1]", "[=Branch0]", "[=Ring4]", "[C@@@]", "[C++1]", "[Qq+1]", "[1]", "[=]", "[Ring]",
           "[===C]", "[ C]", "[C-01]", "[CH12]", "[#Ring1x]", "[N@H]", "[/Branch1]", "[=/Ring1]",
           "[xepsx]", "[epsilo]", "[epsilon ]", "[Epsilon]", "[\uff11\uff12C]", "[CH\uff12]", "[C+\u0661]", "[\u0663H]"]


def digits_for(q, L):
    q = max(0, min(q, 16 ** L - 1))
    d = []
    for _ in range(L):
        d.append(INDEX[q % 16])
        q //= 16
    return d[::-1]


class Sim:
    """incremental, approximate-by-design rendering of the derivation state (steering only)"""

    def __init__(self, table):
        self.table = table
        self.frames = [[0, INF, None]]   # [state, budget_left, prev_atom]
        self.natoms = 0
        self.pending = None              # [kind, left, q, arg]
        self.rejected = False
        self.cache = {}
        self.nrings = 0
        self.maxdepth = 0

    def state(self):
        return self.frames[-1][0]

    def depth(self):
        return len(self.frames) - 1

    def prev(self):
        return self.frames[-1][2]

    def remaining(self):
        return self.frames[-1][1]

    def feed(self, tok):
        if tok == "[nop]":
            return
        if tok == ".":
            self.frames = [[0, INF, None]]
            self.pending = None
            return
        frames = self.frames
        for f in frames:
            f[1] -= 1
        if self.pending is not None:
            p = self.pending
            p[2] = p[2] * 16 + IDX.get(tok, 0)
            p[1] -= 1
            if p[1] == 0:
                self.pending = None
                if p[0] == "B":
                    frames.append([p[3], p[2] + 1, frames[-1][2]])
                    if len(frames) - 1 > self.maxdepth:
                        self.maxdepth = len(frames) - 1
                    return
                self.nrings += 1
            self._pop()
            return
        f = frames[-1]
        s = f[0]
        if s is not None:
            mb = BRANCH.match(tok)
            mr = RING.match(tok) if mb is None else None
            if mb is not None:
                if s > 1:
                    n = min(s - 1, ORDER[mb.group(1)])
                    f[0] = s - n
                    self.pending = ["B", int(mb.group(2)), 0, n]
            elif mr is not None:
                if s != 0 and mr.group(1) != "--":
                    pre = mr.group(1)
                    o = min(1 if len(pre) == 2 else ORDER[pre], s)
                    f[0] = (s - o) or None
                    self.pending = ["R", int(mr.group(2)), 0, None]
            elif tok == "[epsilon]":
                if s != 0:
                    f[0] = None
            else:
                pa = self.cache.get(tok, 0)
                if pa == 0:
                    pa = self.cache[tok] = parse_atom_symbol(tok, self.table)
                if pa is None:
                    self.rejected = True
                    f[0] = None
                else:
                    b, atom, cap = pa
                    if s == 0:
                        f[2] = self.natoms
                        self.natoms += 1
                        f[0] = cap or None
                    else:
                        mu = min(ORDER[b], cap, s)
                        if mu == 0:
                            f[0] = None
                        else:
                            f[2] = self.natoms
                            self.natoms += 1
                            f[0] = (cap - mu) or None
        self._pop()

    def _pop(self):
        frames = self.frames
        while len(frames) > 1 and frames[-1][1] <= 0:
            frames.pop()


def table_atom_pool(table):
    """atom bodies for the keys of the table (over-represented in generation)"""
    pool = []
    for k in table:
        if k == "?":
            continue
        pool.append(k)
    return pool or ["C"]


def gen_atom(ch, pool, want_live=True):
    w = ch.weighted([(10, "live"), (3, "dead"), (4, "bracket"), (4, "table"), (1, "any")])
    if w == "live":
        body = ch.pick(LIVE_ATOMS)
    elif w == "dead":
        body = ch.pick(DEAD_ATOMS)
    elif w == "bracket":
        body = ch.pick(BRACKET_ATOMS)
    elif w == "table":
        body = ch.pick(pool)
        if ch.bool(25):
            # decorate a table key: isotope / chirality / H count in the documented order
            el, chg = body, ""
            for sgn in "+-":
                if sgn in body:
                    el, chg = body.split(sgn)[0], sgn + body.split(sgn)[1]
            body = "%s%s%s%s%s" % (ch.pick(["", "", "13", "2", "007"]), el, ch.pick(["", "", "@", "@@"]),
                                   ch.pick(["", "", "H1", "H2", "H0"]), chg)
    else:
        body = "%s%s%s%s%s" % (ch.pick(["", "", "", "1", "12", "235", "0"]), ch.pick(ELEMENT_LIST),
                               ch.pick(["", "", "", "@", "@@"]), ch.pick(["", "", "", "H1", "H2", "H3", "H0", "H9"]),
                               ch.pick(["", "", "+1", "-1", "+2", "-3", "+10", "-12", "+11", "+100"]))
    return "[%s%s]" % (ch.weighted(BOND_PREFIX), body)


def gen_live(ch, table, max_len=120, unknown_percent=0, frag_percent=4):
    """state-aware generation. returns token list (with '.' tokens between fragments)"""
    sim = Sim(table)
    pool = table_atom_pool(table)
    toks = []
    target = ch.int(1, max_len)
    last_q = 0

    def emit(t):
        toks.append(t)
        sim.feed(t)

    while len(toks) < target and not (toks and ch.exhausted()):
        if unknown_percent and ch.bool(unknown_percent):
            emit(ch.pick(UNKNOWN))
            continue
        s = sim.state()
        depth = sim.depth()
        if s is None:
            if depth > 0:
                r = sim.remaining()
                k = r if r <= 3 else ch.int(1, 3)
                for _ in range(int(min(k, 6))):
                    emit(gen_atom(ch, pool) if ch.bool(70) else ch.pick(INDEX + ["[epsilon]", "[Ring1]", "[Branch1]"]))
                if r > 3 and ch.bool(50):
                    # leave the dead branch quickly: pad the rest
                    for _ in range(int(min(sim.remaining() if sim.depth() == depth else 0, 20))):
                        emit("[C]")
                continue
            w = ch.weighted([(6, "dot"), (2, "junk"), (2, "stop")])
            if w == "stop":
                break
            if w == "junk":
                for _ in range(ch.int(1, 3)):
                    emit(gen_atom(ch, pool) if ch.bool(60) else ch.pick(INDEX + UNKNOWN[:6] + ["[epsilon]", "[nop]"]))
            emit(".")
            continue
        if s == 0:
            w = ch.weighted([(90, "atom"), (3, "ring"), (3, "branch"), (2, "eps"), (2, "nop")])
        elif s == 1:
            w = ch.weighted([(72, "atom"), (14, "ring"), (4, "branch"), (2, "eps"), (3, "nop"), (frag_percent, "dot"), (1, "idx")])
        else:
            w = ch.weighted([(48, "atom"), (24, "branch"), (20, "ring"), (1, "eps"), (3, "nop"), (frag_percent // 2, "dot"), (2, "idx")])
        if w == "atom":
            emit(gen_atom(ch, pool))
        elif w == "eps":
            emit("[epsilon]")
        elif w == "nop":
            emit("[nop]")
        elif w == "dot":
            if toks and toks[-1] != ".":
                emit(".")
        elif w == "idx":
            emit(ch.pick(INDEX))
        elif w == "branch":
            L = ch.weighted([(17, 1), (2, 2), (1, 3)])
            M = ch.weighted([(6, ""), (3, "="), (1, "#")])
            left = target - len(toks)
            q = ch.weighted([(8, None), (2, max(0, left - 2 - L)), (1, left + 3), (1, 15), (1, 16)])
            if q is None:
                q = ch.small(12, 60)
            emit("[%sBranch%d]" % (M, L))
            ds = digits_for(q, L)
            if ch.bool(3):
                ds[ch.below(L)] = ch.pick(["[F]", "[Xx]", "[epsilon]", "[=O]", "[Cl]"])  # non-index digit = 0
            for d in ds:
                emit(d)
        else:  # ring
            L = ch.weighted([(17, 1), (2, 2), (1, 3)])
            pre = ch.weighted(RING_PREFIX)
            p = sim.prev() or 0
            kind = ch.weighted([(5, "size"), (6, "any"), (3, "adjacent"), (2, "first"), (2, "beyond"), (2, "repeat")])
            if kind == "size":
                q = ch.int(1, 5)
            elif kind == "any":
                q = ch.int(0, max(0, p - 1))
            elif kind == "adjacent":
                q = 0
            elif kind == "first":
                q = max(0, p - 1)
            elif kind == "beyond":
                q = p + ch.int(0, 20)
            else:
                q = last_q
            last_q = q
            emit("[%sRing%d]" % (pre, L))
            ds = digits_for(q, L)
            if ch.bool(3):
                ds[ch.below(L)] = ch.pick(["[F]", "[Xx]", "[epsilon]", "[=O]", "[Cl]"])
            for d in ds:
                emit(d)
    while toks and toks[-1] == ".":
        toks.pop()
    if ch.bool(6) and toks:
        # truncate inside an index read now and then
        for i in range(len(toks) - 1, max(-1, len(toks) - 6), -1):
            if "Ring" in toks[i] or "Branch" in toks[i]:
                toks = toks[:i + 1 + ch.int(0, 1)]
                break
        while toks and toks[-1] == ".":
            toks.pop()
    return toks


def gen_uniform(ch, alphabet, max_len=60, dot_percent=2):
    n = ch.int(1, max_len)
    toks = []
    for _ in range(n):
        if toks and ch.exhausted():
            break
        if dot_percent and toks and toks[-1] != "." and ch.bool(dot_percent):
            toks.append(".")
        else:
            toks.append(ch.pick(alphabet))
    while toks and toks[-1] == ".":
        toks.pop()
    return toks


# ------------------------------------------------------------------------------------------ templates


def tmpl_many_rings(ch, big=True):
    """chain + k ring symbols; k up to 300 so that > 99 closures occur; optionally nested so that many
    are open at once"""
    k = ch.weighted([(3, ch.int(1, 20)), (2, ch.int(90, 130)), (1, ch.int(100, 300))]) if big else ch.int(1, 30)
    style = ch.pick(["triangles", "nested", "fan", "mixed"])
    toks = []
    if style == "triangles":
        unit = ["[C]", "[C]", "[C]", "[Ring1]", "[Ring1]"]
        for _ in range(k):
            toks += unit
    elif style == "nested":
        # 2k-chain of hypervalent atoms, ring i connects atom k-1-i with k+i: all open at once in the middle
        n = k
        atom = ch.pick(["[C]", "[S]", "[P]", "[N]"])
        toks = [atom] * n
        for i in range(n):
            toks.append(atom)
            q = 2 * i + 1 - 1 + 1   # distance from atom n+i to atom n-1-i is 2i+1 -> Q = 2i
            q = 2 * i
            L = 1 if q < 16 else (2 if q < 256 else 3)
            toks.append("[Ring%d]" % L)
            toks += digits_for(q, L)
    elif style == "fan":
        # one hub with capacity >= 8 is impossible for most; use many S atoms each closing to a far atom
        toks = ["[C]"] * 4
        for i in range(k):
            toks += ["[S]", "[Ring%d]" % (1 if i < 12 else 2)] + digits_for(3 + i, 1 if i < 12 else 2)
    else:
        atom = ["[C]", "[N]", "[S]", "[=C]", "[P]"]
        for i in range(k):
            toks += [ch.pick(atom), ch.pick(atom), ch.pick(atom)]
            L = ch.pick([1, 1, 2])
            toks.append("[%sRing%d]" % (ch.pick(["", "", "=", "-/"]), L))
            toks += digits_for(ch.int(0, min(3 * i + 2, 16 ** L - 1)), L)
    return toks


def tower_tokens(d, atom="[C]", branch=""):
    """d nested live branches: every branch holds one atom and then the next branch, so each level is a new
    derivation instance (one recursion level in a recursive implementation). Built inside-out so that
    every branch's Q is exactly the length of its content - 1 (clipped to 16^3 - 1 for very deep towers)."""
    content = [atom]
    for _ in range(d - 1):
        q = len(content) - 1
        L = 1 if q < 16 else (2 if q < 256 else 3)
        content = [atom, "[%sBranch%d]" % (branch, L)] + digits_for(q, L) + content
    q = len(content) - 1
    L = 1 if q < 16 else (2 if q < 256 else 3)
    return [atom, "[%sBranch%d]" % (branch, L)] + digits_for(q, L) + content


def tmpl_tower(ch, max_depth=200):
    d = ch.weighted([(4, ch.int(1, 12)), (2, ch.int(12, 60)), (1, ch.int(60, max_depth))])
    atom = ch.pick(["[C]", "[S]", "[P]", "[N]", "[=C]", "[Xe-2]"])
    toks = tower_tokens(d, atom, ch.pick(["", "", "=", "#"]))
    return toks + [ch.pick(["[F]", "[C]", "[=O]"])] * ch.int(0, 3)


def tmpl_comb(ch):
    centre = ch.pick(["[S]", "[P]", "[Xe-2]", "[Fe]", "[I]", "[Cl]"])
    k = ch.int(1, 9)
    toks = [centre]
    for _ in range(k):
        toks += [ch.pick(["[Branch1]", "[=Branch1]", "[#Branch1]"]), "[C]", ch.pick(["[F]", "[=O]", "[#N]", "[O]", "[Cl]"])]
    return toks + ["[C]"]


def tmpl_long_ring(ch):
    n = ch.pick([14, 15, 16, 17, 254, 255, 256, 257, 300])
    L = ch.pick([1, 2, 3])
    q = ch.pick([n - 2, n - 1, n, 15, 16, 255, 256])
    return ["[C]"] * n + ["[%sRing%d]" % (ch.pick(["", "="]), L)] + digits_for(q, L) + ["[C]"] * ch.int(0, 2)


def gen_template(ch, big=True):
    w = ch.weighted([(4, "rings"), (3, "tower"), (2, "comb"), (2, "long")])
    if w == "rings":
        return tmpl_many_rings(ch, big)
    if w == "tower":
        return tmpl_tower(ch)
    if w == "comb":
        return tmpl_comb(ch)
    return tmpl_long_ring(ch)


# ------------------------------------------------------------------------------------------ corpus


_CORPUS = None


def corpus_smiles():
    global _CORPUS
    if _CORPUS is None:
        with open(os.path.join(HERE, "corpus", "smiles.txt")) as f:
            _CORPUS = [l.strip() for l in f if l.strip()]
    return _CORPUS


def mutate_tokens(ch, toks, pool, n_max=4):
    toks = list(toks)
    for _ in range(ch.int(1, n_max)):
        if not toks:
            break
        w = ch.int(0, 3)
        i = ch.below(len(toks))
        if w == 0:
            toks.insert(i, ch.pick(INDEX + ["[=Ring1]", "[Ring2]", "[#Branch1]", "[epsilon]", "[nop]"]) if ch.bool(60) else gen_atom(ch, pool))
        elif w == 1:
            del toks[i]
        elif w == 2:
            toks[i] = ch.pick(INDEX + ["[=Ring1]", "[Ring2]", "[#Branch2]"]) if ch.bool(60) else gen_atom(ch, pool)
        else:
            j = ch.below(len(toks))
            toks[i], toks[j] = toks[j], toks[i]
    # keep it well formed: no leading/trailing/double dots
    out = []
    for t in toks:
        if t == "." and (not out or out[-1] == "."):
            continue
        out.append(t)
    while out and out[-1] == ".":
        out.pop()
    return out


def join(toks):
    return "".join(toks)
