"""G-TABLE - generated constraint tables (valid ones, and candidate-invalid ones for C07/C12)."""
from vf.refderive import PRESETS
from vf.refsmiles import ELEMENTS

ELEMENT_LIST = sorted(ELEMENTS)
FAVOURITES = ["Fe", "Xe", "Si", "Se", "Sn", "Na", "Cu", "Zn", "Te", "As", "Al", "Li", "Pt", "U"]
CHARGES = [1, 2, 3, 9, 10, 11, 12, 20, 100]
VALUES = [0, 1, 2, 3, 4, 5, 6, 7, 8, 9, 12, 20]
PRESET_NAMES = ["default", "octet_rule", "hypervalent"]


def gen_key(ch):
    el = ch.pick(FAVOURITES) if ch.bool(60) else ch.pick(ELEMENT_LIST)
    if ch.bool(35):
        return el
    sign = "+" if ch.bool(50) else "-"
    n = ch.weighted([(5, 1), (3, 2), (2, 3), (1, 9), (2, 10), (1, 11), (1, 12), (1, 20), (1, 100)])
    return "%s%s%d" % (el, sign, n)


def gen_valid_table(ch, allow_preset_name=True):
    """returns a preset name (str) or a dict the documentation says is acceptable"""
    w = ch.weighted([(3, "preset"), (5, "tweaked"), (2, "fresh")])
    if w == "preset":
        name = ch.pick(PRESET_NAMES)
        return name if allow_preset_name else dict(PRESETS[name])
    if w == "tweaked":
        t = dict(PRESETS[ch.pick(PRESET_NAMES)])
        keys = sorted(k for k in t if k != "?")
        for _ in range(ch.int(0, 8)):
            t[ch.pick(keys)] = ch.pick(VALUES)
    else:
        t = {}
        for _ in range(ch.int(0, 6)):
            t[ch.pick(["C", "N", "O", "S", "P", "B", "F", "Cl", "H", "C+1", "N+1", "O-1", "S+1", "C-1"])] = ch.pick(VALUES)
    for _ in range(ch.int(0, 3)):
        t[gen_key(ch)] = ch.pick(VALUES)
    t["?"] = ch.int(0, 12)
    return t


def table_dict(t):
    return dict(PRESETS[t]) if isinstance(t, str) else dict(t)


# candidate-invalid material: whether the library accepts one is observed, not assumed.
BAD_KEYS = ["C+0", "C+01", "C+²", "c", "Xx", "C++", "+1", "C-", "C+1.0", "C +1", "", "C1", "Fe+-1", "N+1+1",
            "C+١", "CC", "c+1", "?+1", "C+1 ", " C", "C-0", "H+00", "C\n", "N+1\n", "Fe+3\n", "\nC", "C\t", "C+1\r", "?\n", "C\x00", "Cl ", "C+1\n2"]
BAD_VALUES = [-1, 1.0, "2", None, -5, 2.5, [1]]
ODD_VALUES = [True, False]          # bool is an int subclass: documented status unclear, only 'state consistent' is asserted


def gen_candidate_invalid(ch):
    """returns (argument, klass) where klass names which documented rule it breaks"""
    w = ch.int(0, 7)
    base = dict(PRESETS[ch.pick(PRESET_NAMES)])
    if w == 0:
        del base["?"]
        return base, "missing_?"
    if w == 1:
        k = ch.pick(BAD_KEYS)
        base[k] = ch.pick([0, 1, 2, 4])
        return base, "bad_key"
    if w == 2:
        base[ch.pick(sorted(base))] = ch.pick(BAD_VALUES)
        return base, "bad_value"
    if w == 3:
        return ch.pick(["Default", "octet", "hyper", "", "?", "default "]), "bad_preset"
    if w == 4:
        return ch.pick([None, 3, 2.5, ["C"], ("default",), {"?"}]), "bad_type"
    if w == 5:
        # a good prefix followed by one bad entry at the end: atomicity probe
        t = {}
        for k in ["?", "C", "N", "O", "Xe-2"]:
            t[k] = ch.pick([1, 2, 3, 4])
        t[ch.pick(BAD_KEYS)] = 1
        return t, "bad_key"
    if w == 6:
        t = {"?": ch.int(0, 8), "C": ch.pick([1, 2, 3]), "Xe-2": ch.pick([2, 4, 6])}
        t["O"] = ch.pick(BAD_VALUES)
        return t, "bad_value"
    base[ch.pick([1, None, ("C",), 2.0])] = 1
    return base, "nonstring_key"
