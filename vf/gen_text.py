"""G-TEXT - arbitrary str for the totality properties C08 / C09 (also used as the byte->str layer of the
atheris targets: everything is a function of a Chooser)."""
from vf import gen_selfies as G
from vf.refderive import INDEX

SELFIES_FRAGS = INDEX + [
    "[F]", "[Cl]", "[=O]", "[#N]", "[C@@H1]", "[C@]", "[13C]", "[N+1]", "[O-1]", "[Fe+3]", "[Xe-2]", "[CH4]", "[CH0]", "[/C]", "[\\C]",
    "[Branch3]", "[#Branch3]", "[Ring3]", "[=Ring1]", "[#Ring2]", "[-/Ring1]", "[\\/Ring2]", "[//Ring1]", "[\\\\Ring3]", "[/-Ring1]",
    "[epsilon]", "[nop]", ".", "..", "[", "]", "[[", "]]", "[]", "[[C]]", "[C.C]", "[C", "C]", "C", "(", ")", "=", "#", "%1", "1", " ", "\n", "\t",
    "[Branch4]", "[Ring0]", "[Ring4]", "[Branch0]", "[CH10]", "[CH]", "[C+0]", "[C+]", "[C++]", "[C-]", "[expl]", "[Cexpl]", "[C@@Hexpl]",
    "[=Nexpl]", "[/O+expl]", "[nHexpl]", "[Branch1_1]", "[Branch2_3]", "[Branch1_4]", "[Expl=Ring1]", "[Expl#Ring2]", "[Expl/Ring1]",
    "[Expl\\Ring3]", "[Expl-Ring1]", "[--Ring1]", "[=-Ring1]", "[Ringch]", "[ch]", "[ng]", "[ch12]", "[xng12]", "[eps]", "[epsilo]",
    "[xepsx]", "[Xx]", "[c]", "[n]", "[se]", "[H]", "[2H]", "[HH1]", "[Uue]", "[A]", "[a]", "[C@@@]", "[C@H]", "[CH1@]", "[1C1]", "[=]", "[#]",
    "[/]", "[\\]", "[=Branch1", "Branch1]", "[Ring1]]", "[[Ring1]", "[Ring1][", "[?]", "[*]", "[C:1]", "[C+1-1]", "[C+10]", "[C-100]",
    "[\uff11\uff12C]", "[CH\uff12]", "[C+\u0661]", "[C\u0301]", "[\u0421]", "[\u216b]", "[\u00b2H]", "[0C]", "[000C]", "[C@@H0]", "[CH9]",
    "[ C]", "[C ]", "[C]\x00", "\x00", "[\x00]", "\ud800", "[=C][=C]", "[S][=Branch1][C][=O][=Branch1][C][=O][O]",
    # characters that are special to str.format / % / regex / repr, inside and outside symbols
    "[{x}]", "[C}]", "[{}]", "[{0}]", "[{Ring1]", "[%s]", "[%d]", "[%(x)s]", "{", "}", "{}", "%s", "[\\]", "[\\C]", "[(C)]", "[C|N]",
    "[^C]", "[C$]", "[C*]", "[.*]", "[\\d]", "[C\n]", "[C\\n]", "[Branch1_4]", "[Branch3_5]", "[Branch1_\u0664]", "[Expl~Ring1]", "[Branch1_]",
]

SMILES_FRAGS = [
    # a bond written twice (ring closure between atoms that are already bonded), stereocentres with more than four
    # neighbours and a ring bond, labels cut short
    "C1(C)C1", "C12CCCC12", "S1(=O)(=O)C1", "P123CCCC123", "CC1(F)C1", "C1C1", "C=1C1", "[S@]1(F)(Cl)(Br)", "[P@]1(F)(Cl)(Br)", "[C@]1(F)(Cl)(Br)",
    "[Fe@]1(F)(F)(F)", "[S@@](F)(Cl)(Br)(I)", "C%1", "C=%1", "C%12CCCCC%",
    "C", "N", "O", "S", "P", "F", "Cl", "Br", "I", "B", "c", "n", "o", "s", "p", "b", "[nH]", "[C@@H]", "[C@H]", "[C@]", "[13CH3]", "[NH4+]",
    "[O-]", "[Fe+3]", "[Fe+++]", "[Cu-3]", "[N+]", "[n+]", "[se]", "[te]", "[as]", "[si]", "[al]", "[Si]", "[H]", "[2H]", "[HH]", "[C:1]",
    "[CH2:12]", "(", ")", "()", "((", "))", "(C)", "(=O)", ".", "..", "-", "=", "#", ":", "/", "\\", "$", "*", "[*]", "->", "<-", "~", "1", "2",
    "3", "0", "9", "%10", "%11", "%99", "%100", "%1", "%", "%%", "%ab", "%0a", "=1", "-1", ":1", "/1", "\\1", "#1", "C1", "C11", "C12", "c1ccccc1",
    "C1CC1", "C=1CC1", "C=1CC-1", "C1CC=1", "C/1CC\\1", "F:F", "F:1CC1", "F1CC:1", "Cl:1CCC:1", "[Na]:1CC1", "C(F:1)CC1", "C1CC.C", "C1.C",
    "OC1CC.[Na+]", "C%12CC.O", "C(.C)", "C.(C)", "C(C.C)", "C1CC.C1",  "C:C", "c:c", "c-c", "c=c", "[c-]", "[c+]", "[cH-]", "[c]", "[n-]", "[o+]", "[b-]",
    "[", "]", "[]", "[[C]]", "[C", "C]", "[C@@@H]", "[C@TH1]", "[C@SP1]", "[C@@H2]", "[CH10]", "[C+0]", "[C-0]", "[C++++++]", "[C+-]", "[C+1+1]",
    "[CH]", "[CH1]", "[CHH]", "[H+]", "[Xx]", "[xx]", "[cl]", "[CL]", "[Uue]", "[12]", "[C12]", "[12C12]", "[Cu@OH1]", "[co]", "[Co]", " ", "\n",
    "\t", "\x00", "C C", "C\n", "\u00b2", "\uff11", "\u0661", "[\uff11\uff13C]", "[CH\uff12]", "[C+\uff11]", "[C:\uff11]", "%\uff11\uff12", "\u0421",
    "\u0441", "c\u0301", "[\u0421]", "{", "}", "[{x}]", "[C{}]", "%s", "[%s]", "[C%d]", "{0}", "[^C]", "[C|N]", "[C$]", "\\\\", "[\\C]", "Cl1", "Br(", "Sc", "Si", "se", "Se", "[Se]", "te", "[pH]", "p", "s(=O)(=O)", "n(C)", "c(=O)", "[nH+]", "[NH+]",
    "[N-]", "[S-]", "[s+]", "[OH3+3]", "[Zz]", "&", "^", "{", "}", "@", "@@", "H", "h", "D", "T", "X", "R", "A", "a", "Q", "0C", "1C", "C0", "C%01", "C%001",
]


def gen_selfies_text(ch):
    """arbitrary str with a SELFIES flavour"""
    w = ch.weighted([(8, "dict"), (3, "mutated"), (2, "unicode"), (2, "live_text"), (1, "template")])
    if w == "dict":
        n = ch.int(0, 40)
        out = []
        for _ in range(n):
            if out and ch.exhausted():
                break
            out.append(ch.pick(SELFIES_FRAGS))
        return "".join(out)
    if w == "mutated":
        toks = G.gen_live(ch, {"?": 8, "C": 4, "N": 3, "O": 2, "S": 6, "P": 5, "F": 1, "Cl": 1}, max_len=40, unknown_percent=5)
        return mutate_text(ch, "".join(toks))
    if w == "unicode":
        return gen_unicode(ch, 30)
    if w == "live_text":
        toks = G.gen_live(ch, {"?": 8, "C": 4, "N": 3, "O": 2, "S": 6, "P": 5, "F": 1, "Cl": 1}, max_len=80, unknown_percent=3)
        return "".join(toks)
    return gen_selfies_template(ch, 300)


def gen_unicode(ch, max_len):
    n = ch.int(0, max_len)
    out = []
    for _ in range(n):
        if out and ch.exhausted():
            break
        r = ch.weighted([(6, "ascii"), (2, "bracket"), (3, "digitlike"), (2, "letterlike"), (2, "any"), (1, "astral"), (1, "surrogate")])
        if r == "ascii":
            out.append(chr(ch.int(0, 127)))
        elif r == "bracket":
            out.append(ch.pick("[].()%=#"))
        elif r == "digitlike":
            out.append(chr(ch.pick([ch.int(0x660, 0x669), ch.int(0xFF10, 0xFF19), ch.int(0xB2, 0xB3), 0xB9, ch.int(0x2160, 0x216F),
                                    ch.int(0x2070, 0x2079), ch.int(0x966, 0x96F), 0xBD, ch.int(0x3021, 0x3029), 0x1D7CE])))
        elif r == "letterlike":
            out.append(chr(ch.pick([ch.int(0x391, 0x3C9), ch.int(0x410, 0x44F), ch.int(0xFF21, 0xFF5A), ch.int(0xC0, 0xFF), 0x131, 0x130, 0xDF,
                                    0x1C5, 0x2170, 0x24B6])))
        elif r == "any":
            out.append(chr(ch.int(0, 0xFFFF)))
        elif r == "astral":
            out.append(chr(ch.int(0x10000, 0x10FFFF)))
        else:
            out.append(chr(ch.int(0xD800, 0xDFFF)))
    return "".join(out)


def mutate_text(ch, s):
    s = list(s)
    for _ in range(ch.int(1, 4)):
        if not s:
            break
        i = ch.below(len(s))
        w = ch.int(0, 4)
        if w == 0:
            del s[i]
        elif w == 1:
            s.insert(i, ch.pick("[].()=#%1 \\/@+-:") if ch.bool(70) else chr(ch.int(0, 0x2FFF)))
        elif w == 2:
            s[i] = ch.pick("[].()=#%1 \\/@+-:") if ch.bool(70) else chr(ch.int(0, 0x2FFF))
        elif w == 3:
            j = ch.below(len(s))
            s[i], s[j] = s[j], s[i]
        else:
            j = ch.below(len(s))
            a, b = min(i, j), max(i, j)
            s[a:a] = s[a:b]
    return "".join(s)


def gen_selfies_template(ch, max_depth):
    w = ch.weighted([(3, "tower"), (2, "digits"), (2, "chain"), (1, "rings"), (1, "dots")])
    if w == "tower":
        d = ch.weighted([(3, ch.int(1, 50)), (2, ch.int(50, max_depth))])
        return "".join(_tower(d, ch.pick(["[S]", "[P]", "[C]", "[Xe-2]"])))
    if w == "digits":
        n = ch.pick([1, 50, 400, 4299, 4300, 4301, 5000])
        where = ch.pick(["iso", "charge", "h", "ringidx"])
        d = ch.pick("1909") * n
        if where == "iso":
            return "[C][%sC][C]" % d
        if where == "charge":
            return "[C][C+%s]" % d
        if where == "h":
            return "[C][CH%s]" % d
        return "[C][C][Ring1][%s]" % d
    if w == "chain":
        n = ch.pick([100, 1000, 5000])
        return ch.pick(["[C]", "[=C]", "[C][Branch1][C][F]", "[nop]", "[epsilon]", "[C][Ring1][C]", "."]) * n
    if w == "rings":
        return "".join(G.tmpl_many_rings(ch, big=True))
    return ch.pick([".", "..", "[C].", ".[C]", "[C]..[C]", ". ."]) * ch.int(1, 50)


def _tower(d, centre):
    return G.tower_tokens(d, centre) + ["[F]"]


def deep_tower(d, centre="[C]"):
    """d nested live branches: [S][Branch][q][Branch][q]... every branch is the first symbol of the previous"""
    return "".join(_tower(d, centre))


def gen_smiles_text(ch):
    w = ch.weighted([(6, "dict"), (3, "mutated"), (2, "unicode"), (1, "template"), (4, "spelled"), (3, "spelled_mutated"), (1, "aromatic")])
    if w in ("spelled", "spelled_mutated"):
        from vf import gen_mol as GM
        m = GM.gen_molecule(ch, max_atoms=ch.pick([6, 14, 30]))
        wr = GM.write(m, ch)
        s = wr["smiles"] if wr else "C"
        return s if w == "spelled" else mutate_text(ch, s)
    if w == "aromatic":
        from vf import gen_arom as GA, gen_mol as GM
        name, adj, kinds = GA.gen_system(ch, extended=ch.bool(50), allow_cage=ch.bool(20))
        wr = GM.write(GA.build(adj, kinds), ch, variants=False)
        return wr["smiles"] if wr else "c1ccccc1"
    if w == "dict":
        n = ch.int(0, 30)
        out = []
        for _ in range(n):
            if out and ch.exhausted():
                break
            out.append(ch.pick(SMILES_FRAGS))
        return "".join(out)
    if w == "mutated":
        return mutate_text(ch, ch.pick(G.corpus_smiles()))
    if w == "unicode":
        return gen_unicode(ch, 30)
    return gen_smiles_template(ch, 300)


def gen_smiles_template(ch, max_depth):
    w = ch.weighted([(3, "parens"), (2, "digits"), (2, "chain"), (2, "rings"), (1, "dots")])
    if w == "parens":
        d = ch.weighted([(3, ch.int(1, 50)), (2, ch.int(50, max_depth))])
        style = ch.pick(["nested", "nested_chain", "unbalanced_open", "unbalanced_close"])
        if style == "nested":
            return "C" + "(C" * d + ")" * d + "C"
        if style == "nested_chain":
            return "S" + "(S" * d + "F" + ")F" * d
        if style == "unbalanced_open":
            return "C" + "(C" * d
        return "C" + "C)" * d
    if w == "digits":
        n = ch.pick([1, 50, 400, 4299, 4300, 4301, 5000])
        where = ch.pick(["iso", "charge", "h", "class", "ring"])
        d = ch.pick("1909") * n
        if where == "iso":
            return "C[%sC]C" % d
        if where == "charge":
            return "C[C+%s]" % d
        if where == "h":
            return "C[CH%s]" % d
        if where == "class":
            return "C[C:%s]" % d
        return "C%sC" % d[:200]
    if w == "chain":
        n = ch.pick([100, 1000, 4000])
        return ch.pick(["C", "C=C", "C(F)", "c", "C1CC1", "[C@@H](F)", "C.", "C/C=C/"]) * n
    if w == "rings":
        k = ch.int(1, 120)
        style = ch.pick(["sequential", "open_all", "reuse", "self", "dup"])
        if style == "sequential":
            return "".join("C%sCC%s" % (_lab(i % 99 + 1), _lab(i % 99 + 1)) for i in range(k))
        if style == "open_all":
            k = min(k, 99)
            return "C" + "".join("S" + _lab(i + 1) for i in range(k)) + "".join("S" + _lab(i + 1) for i in range(k))
        if style == "reuse":
            return "C1CC1" * k
        if style == "self":
            return "C" * ch.int(0, 3) + "C" + _lab(k % 99 + 1) * 2
        return "C1CC1" + "C12CC12" + "C1C1"
    return ch.pick([".", "C.", ".C", "C..C", "C.C"]) * ch.int(1, 60)


def _lab(i):
    return str(i) if i < 10 else "%%%02d" % i
