"""Oracles shared by several properties (C01/C02/C07/C13/C14/C18 ...)."""
import re

import selfies as sf

from vf import refderive as R
from vf import refsmiles
from vf.core import Fail, call, jdump

_last_table = [None, None]


def use_table(spec):
    """set the table (preset name or dict) if it is not the one in force; returns the dict the
    library reports with get_semantic_constraints(), or None if the library rejected it."""
    key = spec if isinstance(spec, str) else jdump(spec)
    if _last_table[0] == key:
        cur = sf.get_semantic_constraints()
        if cur == _last_table[1]:
            return cur
    try:
        sf.set_semantic_constraints(spec if isinstance(spec, str) else dict(spec))
    except ValueError:
        _last_table[0] = None
        return None
    cur = sf.get_semantic_constraints()
    _last_table[0] = key
    _last_table[1] = dict(cur)
    return cur


def forget_table():
    _last_table[0] = None


LABEL3 = re.compile(r"%\d{3}")


def strip_brackets(s):
    return re.sub(r"\[[^\]]*\]", "", s)


def read_output(out, rm=None):
    """strict re-reading of a decoder output; returns (Mol, None) or (None, Fail)"""
    try:
        return refsmiles.read(out), None
    except refsmiles.SmilesError as e:
        kind = e.kind.split(":")[0]
        lf = label_over_99(out, rm, kind)
        return None, lf or Fail("syntax:" + kind, smiles=out[:400])


def label_over_99(out, rm, symptom):
    """a three-digit %label in an output with more than 99 ring bonds: one root cause whatever the
    symptom (unreadable, or readable as %nn + digit and then a different, possibly over-valent molecule).
    Qualified by the number of simultaneously open closures the derived molecule needs in this atom order
    (R2): below 100 a legal spelling exists, from 100 on none does."""
    if rm is not None and rm.stats["ring_made"] > 99 and LABEL3.search(strip_brackets(out)):
        q = "simultaneous<100" if rm.max_open_rings() < 100 else "simultaneous>=100"
        return Fail("syntax:label>99:" + q, symptom=symptom, smiles=out[:300], rings=rm.stats["ring_made"],
                    max_open=rm.max_open_rings())
    return None


def valence_fail(sm, table):
    """every atom's summed bond orders + explicit H within the capacity the table gives it"""
    sums = sm.bond_sums()
    for (a, b), o in sm.bonds.items():
        if o not in (1, 2, 3):
            return Fail("valence:bond_order", bond=(a, b), order=o)
    for i, a in enumerate(sm.atoms):
        cap = R.capacity(table, a["el"], a["charge"])
        used = sums[i] + (a["h"] or 0)
        if used > cap:
            return Fail("valence:exceeded", atom=i, element=a["el"], charge=a["charge"], h=a["h"], used=used, capacity=cap)
    return None


_rdkit = []


def rdkit_sanitizes(smiles, full=True):
    """full: MolFromSmiles(sanitize=True). not full: parse + valence/property sanitization only - used for
    heavily polycyclic outputs, where RDKit's ring perception (not the molecule) is what takes minutes."""
    if not _rdkit:
        from rdkit import Chem, RDLogger
        RDLogger.DisableLog("rdApp.*")
        _rdkit.append(Chem)
    Chem = _rdkit[0]
    try:
        if full:
            return Chem.MolFromSmiles(smiles, sanitize=True) is not None
        m = Chem.MolFromSmiles(smiles, sanitize=False)
        if m is None:
            return False
        ops = Chem.SanitizeFlags.SANITIZE_CLEANUP | Chem.SanitizeFlags.SANITIZE_PROPERTIES
        return Chem.SanitizeMol(m, sanitizeOps=ops, catchErrors=True) == Chem.SanitizeFlags.SANITIZE_NONE
    except Exception:  # noqa
        return False


def decode(s, **kw):
    return call(sf.decoder, s, expected=(sf.DecoderError,), **kw)


def encode(s, **kw):
    return call(sf.encoder, s, expected=(sf.EncoderError,), **kw)


def dec_outcome(s, **kw):
    """comparable outcome: ('ok', smiles) | ('err',) | ('exc', sig)"""
    r = decode(s, **kw)
    if r[0] == "ok":
        return r
    if r[0] == "err":
        return ("err",)
    return ("exc", r[1])


def frag_of(roots):
    import bisect
    return lambda i: bisect.bisect_right(roots, i) - 1


def derivation_classes(rm, toks_len, table_spec, table):
    st = rm.stats
    cl = []
    if st["ring_made"] >= 10:
        cl.append("rings>=10")
    if st["ring_made"] > 99:
        cl.append("rings>99")
    if st["ring_on_bond"]:
        cl.append("ring_on_existing_bond")
    if st["ring_repeated"]:
        cl.append("ring_repeated")
    if st["ring_refused"]:
        cl.append("ring_refused_no_valence")
    if st["ring_reduced"]:
        cl.append("ring_order_reduced")
    if st["ring_clipped_to_first"]:
        cl.append("ring_target_clipped")
    if st["ring_self"]:
        cl.append("ring_to_self")
    if rm.max_depth >= 3:
        cl.append("nesting>=3")
    if rm.max_depth >= 10:
        cl.append("nesting>=10")
    if st["nested_branch"]:
        cl.append("nested_branch")
    if st["branch_overrun"]:
        cl.append("branch_overrun")
    if st["index_multi"]:
        cl.append("index_2-3_symbols")
    if st["index_truncated"]:
        cl.append("index_truncated")
    if st["ignored_after_termination"]:
        cl.append("ignored_after_termination")
    if st["bond_reduced"]:
        cl.append("bond_reduced")
    if st["atom_dropped_cap0"]:
        cl.append("atom_dropped_cap0")
    if st["epsilon_terminates"]:
        cl.append("epsilon_terminates")
    if len(rm.roots) > 1:
        cl.append("multi_fragment")
        fr = frag_of(rm.roots)
        if any(fr(a) != fr(b) for (a, b) in rm.ring_mark):
            cl.append("cross_fragment_ring")
    if not isinstance(table_spec, str):
        cl.append("custom_table")
        if any(v == 0 for v in table.values()):
            cl.append("table_cap0")
        if any(v > 8 for v in table.values()):
            cl.append("table_cap>8")
    if toks_len >= 100:
        cl.append("len>=100")
    if toks_len >= 500:
        cl.append("len>=500")
    if any(a["chir"] for a in rm.atoms):
        cl.append("chiral_atom")
    if rm.chain_mark or any(l or r for (l, r) in rm.ring_mark.values()):
        cl.append("stereo_mark")
    return cl
