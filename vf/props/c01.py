"""C01 - every SELFIES string decodes to a syntactically valid, valence-valid SMILES."""
import selfies as sf

from vf import gen_selfies as G
from vf import gen_table as T
from vf import oracles as O
from vf import refderive as R
from vf import refsmiles
from vf.core import Fail, Result

ID = "C01"
LEVEL = "exploration"
RULE = ("cases = (constraint table, SELFIES token list): state-aware generation steered by a simulation of the "
        "derivation (60%), size-parameterised templates incl. >99 rings and nesting towers (15%), mutated encoder "
        "output of corpus molecules (15%), uniform over an alphabet (10%); tables: presets, tweaked presets, fresh "
        "dicts with capacity 0 and >8 and multi-digit charges. Strings R2 predicts to be rejected are counted as "
        "outside the domain. non-trivial = output has >= 3 atoms and a ring bond or a branch; distinct = distinct "
        "(table, string)")
ASSUMPTIONS = ["R1 strict OpenSMILES reader is the judge of syntactic validity",
               "capacity(table, element, charge) = table[E], table[E+n], table[E-n] else table['?'] (R5)",
               "RDKit MolFromSmiles(sanitize=True) consulted only under the default table when every symbol is in the "
               "independently computed robust alphabet",
               "accept/reject of the input is predicted by R2 (C02 owns mismatches of molecules; a DecoderError on a "
               "string R2 accepts is reported here too because the statement requires a returned SMILES)"]
SELFTESTS = [refsmiles.selftest, R.selftest]

_DEFAULT_ALPHABET = R.expected_alphabet(R.DEFAULT)


def evaluate(case):
    spec = case["table"]
    toks = case["toks"]
    table = O.use_table(spec)
    if table is None:
        return Result(skipped="table not accepted by the library")
    s = "".join(toks)
    try:
        rm = R.derive(s, table)
    except R.Reject:
        # outside the domain (C02 owns accept/reject) - but the call is still made: a failing call must not leave
        # anything behind that corrupts the next translation
        r = O.decode(s)
        if r[0] == "exc":
            return Result(Fail(r[1], selfies=s[:300], table=spec, error=r[2]))
        return Result(skipped="R2 predicts rejection")
    r = O.decode(s)
    if r[0] == "err":
        return Result(Fail("unexpected_DecoderError", selfies=s[:300], table=spec))
    if r[0] == "exc":
        return Result(Fail(r[1], selfies=s[:300], table=spec, error=r[2]))
    out = r[1]
    if not isinstance(out, str):
        return Result(Fail("not_a_string", got=repr(out)[:100]))
    classes = O.derivation_classes(rm, len(toks), spec, table)
    sm, fail = O.read_output(out, rm)
    if fail is None:
        fail = O.valence_fail(sm, table)
        if fail is not None:
            fail = O.label_over_99(out, rm, fail.sig) or fail
    nontrivial = len(rm.atoms) >= 3 and (bool(rm.ring_mark) or any(len(c) > 1 for c in rm.children))
    if fail is None and spec == "default" and all(t in _DEFAULT_ALPHABET for t in toks if t not in (".", "[nop]")):
        classes.append("robust_alphabet_rdkit")
        full = rm.stats["ring_made"] <= 12
        if not full:
            classes.append("rdkit_valence_only(>12 rings)")
        if not O.rdkit_sanitizes(out, full=full):
            fail = Fail("rdkit_rejects", smiles=out[:300], selfies=s[:300], full=full)
    if fail is not None:
        fail.details.setdefault("selfies", s[:400])
        fail.details.setdefault("table", spec)
    return Result(fail, nontrivial, classes, sample=dict(table=spec, selfies=s[:200], smiles=out[:200]))


def gen_case(ch):
    spec = T.gen_valid_table(ch)
    table = T.table_dict(spec)
    w = ch.weighted([(12, "live"), (3, "template"), (3, "mutated"), (2, "uniform"), (2, "robust")])
    if w == "live":
        toks = G.gen_live(ch, table, max_len=ch.weighted([(8, 60), (3, 150), (1, 600)]))
    elif w == "template":
        toks = G.gen_template(ch)
    elif w == "mutated":
        smi = ch.pick(G.corpus_smiles())
        try:
            base = list(sf.split_selfies(sf.encoder(smi, strict=False)))
        except Exception:  # noqa - the corpus is only a seed
            base = ["[C]", "[C]", "[Ring1]", "[C]"]
        toks = G.mutate_tokens(ch, base, G.table_atom_pool(table))
    elif w == "uniform":
        alpha = sorted(R.expected_alphabet(table)) + ["[epsilon]", "[nop]", "[/C]", "[\\C]", "[C@@H1]", "[-/Ring1]"]
        toks = G.gen_uniform(ch, alpha, 80)
    else:
        spec = "default"
        toks = G.gen_uniform(ch, sorted(_DEFAULT_ALPHABET), 60, dot_percent=3) if ch.bool(40) else \
            _live_robust(ch)
    if not toks:
        toks = ["[C]"]
    return dict(table=spec, toks=toks)


def _live_robust(ch):
    toks = G.gen_live(ch, R.DEFAULT, max_len=100)
    return [t if (t in _DEFAULT_ALPHABET or t == ".") else "[C]" for t in toks]


def shard(ctx):
    ctx.drive("main", gen_case, ctx.n(1500, 30000), max_bytes=2500)
    ctx.drive("long", gen_long, ctx.n(40, 1500), max_bytes=9000)


def gen_long(ch):
    spec = T.gen_valid_table(ch)
    table = T.table_dict(spec)
    if ch.bool(50):
        toks = G.gen_live(ch, table, max_len=2000, frag_percent=1)
    else:
        toks = G.tmpl_many_rings(ch, big=True) + (G.gen_live(ch, table, 100) if ch.bool(50) else [])
    return dict(table=spec, toks=toks or ["[C]"])
