"""C02 - the decoder implements the published derivation grammar exactly."""
import itertools

import selfies as sf

from vf import gen_selfies as G
from vf import gen_table as T
from vf import oracles as O
from vf import refderive as R
from vf import refsmiles
from vf.core import Fail, Result

ID = "C02"
LEVEL = "exploration"
RULE = ("(1) bounded-exhaustive: all strings up to a length bound over eight 9-10 symbol alphabets that together cover "
        "every rule and state, under the default table and two custom tables (split over the shards); "
        "(2) sampled: state-aware / template / mutated / uniform strings, with symbols outside the grammar at drawn "
        "positions and unclosed brackets at the end of the string or of a fragment, under generated tables. Oracle: DecoderError <=> R2 rejects; else the output re-read by R1 equals "
        "R2's molecule (atoms in order, bonds, marks, roots, chiral sense). non-trivial = the derivation applies a branch "
        "or ring rule at a state where it is not skipped; distinct = distinct (table, string)")
ASSUMPTIONS = ["R2 is an executable rendering of docs/source/derivation.rst in modern symbol names",
               "R2 choice (i): a capacity-0 atom met at state > 0 is dropped and ends that derivation instance",
               "R2 choice (ii): a branch's Q+1 is a budget on a shared symbol stream (nested consumption is charged to the parent)",
               "R2 choice (iii): ring targets are counted over all atoms derived so far, across fragments",
               "the output text is not compared, only the molecule R1 reads from it"]
SELFTESTS = [refsmiles.selftest, R.selftest]

ALPHABETS = {
    "core": ["[C]", "[=C]", "[F]", "[Branch1]", "[Ring1]", "[=Ring1]", "[O]", "[#N]", "[epsilon]"],
    "branches": ["[S]", "[C]", "[=Branch1]", "[#Branch1]", "[Branch2]", "[=O]", "[Ring2]", "[N]", "."],
    "stereo": ["[C]", "[/C]", "[\\C]", "[-/Ring1]", "[\\/Ring1]", "[//Ring1]", "[=C]", "[Ring1]", "[N]"],
    "chiral": ["[C@]", "[C@@H1]", "[C]", "[Ring1]", "[Branch1]", "[N]", "[F]", "[=Ring1]", "[Ring2]"],
    "special": ["[C]", "[nop]", ".", "[epsilon]", "[Ring1]", "[Branch1]", "[CH4]", "[CH5]", "[Xx]", "[=N]"],
    "charged": ["[P]", "[N+1]", "[O-1]", "[#Branch2]", "[#Ring1]", "[=S]", "[B]", "[H]", "[Cl]"],
    "long_index": ["[C]", "[Ring2]", "[Ring3]", "[Branch2]", "[Branch3]", "[=Ring2]", "[#C]", "[P]", "[S]"],
    "bracket": ["[13C]", "[CH2]", "[NH1]", "[OH0]", "[=CH1]", "[Ring1]", "[Branch1]", "[C]", "[#C+1]", "[\\-Ring1]"],
}
TABLES = {
    "default": "default",
    "t2": dict(R.DEFAULT, **{"C": 3, "N": 1, "F": 2, "O": 0, "S": 9, "H": 2, "?": 3}),
    "t3": dict(R.PRESETS["octet_rule"], **{"?": 0, "C": 6, "N+1": 2, "O-1": 3, "P": 1, "Cl": 2}),
}


def evaluate(case):
    spec = case["table"]
    if isinstance(spec, str) and spec in TABLES:
        spec = TABLES[spec]
    toks = case["toks"]
    table = O.use_table(spec)
    if table is None:
        return Result(skipped="table not accepted by the library")
    s = "".join(toks)
    try:
        rm = R.derive(s, table)
        rejected = None
    except R.Reject as e:
        rm = None
        rejected = str(e)
    r = O.decode(s)
    sample = dict(table=case["table"], selfies=s[:200])
    if r[0] == "exc":
        return Result(Fail(r[1], selfies=s[:400], table=case["table"], error=r[2]), sample=sample)
    if r[0] == "err":
        if rm is None:
            return Result(None, False, ("rejected",), sample=sample)
        return Result(Fail("rejects_derivable_string", selfies=s[:400], table=case["table"]), sample=sample)
    out = r[1]
    sample["smiles"] = out[:200]
    if rm is None:
        return Result(Fail("accepts_underivable_string", selfies=s[:400], table=case["table"], reached=rejected,
                           smiles=out[:200]), sample=sample)
    st = rm.stats
    nontrivial = bool(st["branch_applied"] or st["ring_applied"])
    classes = O.derivation_classes(rm, len(toks), spec, table)
    sm, fail = O.read_output(out, rm)
    if fail is None:
        c = R.compare_with_smiles(rm, sm)
        if c is not None:
            fail = O.label_over_99(out, rm, "molecule:" + c[0]) or \
                Fail("molecule:" + c[0], expected=str(c[1])[:500], got=str(c[2])[:500], smiles=out[:300])
    if fail is not None:
        fail.details.setdefault("selfies", s[:400])
        fail.details.setdefault("table", case["table"])
    return Result(fail, nontrivial, classes, sample=sample)


def gen_case(ch):
    spec = T.gen_valid_table(ch)
    table = T.table_dict(spec)
    w = ch.weighted([(12, "live"), (3, "template"), (3, "mutated"), (2, "uniform")])
    unk = ch.weighted([(6, 0), (2, 2), (1, 8)])
    if w == "live":
        toks = G.gen_live(ch, table, max_len=ch.weighted([(8, 50), (3, 120), (1, 400)]), unknown_percent=unk)
    elif w == "template":
        toks = G.gen_template(ch, big=ch.bool(30))
    elif w == "mutated":
        smi = ch.pick(G.corpus_smiles())
        try:
            base = list(sf.split_selfies(sf.encoder(smi, strict=False)))
        except Exception:  # noqa
            base = ["[C]", "[C]", "[Ring1]", "[C]"]
        toks = G.mutate_tokens(ch, base, G.table_atom_pool(table))
    else:
        name = ch.pick(sorted(ALPHABETS))
        toks = G.gen_uniform(ch, ALPHABETS[name], 30)
    if unk and w != "live" and toks:
        for _ in range(ch.int(0, 2)):
            toks.insert(ch.below(len(toks) + 1), ch.pick(G.UNKNOWN))
    toks = toks or ["[C]"]
    if ch.bool(4):
        # an unclosed bracket: the last symbol of the string (or of a fragment) loses its ']' or is a lone '['
        cut = ch.pick(["[", "[C", "[Branch1", "[=Ring1", "[nop", "[epsilon"])
        if "." in toks and ch.bool(40):
            i = toks.index(".")
            toks = toks[:i] + [cut] + toks[i:]
        else:
            toks = toks + [cut]
    return dict(table=spec, toks=toks)


def shard(ctx):
    k, K = ctx.shard, ctx.nshards
    names = sorted(ALPHABETS)
    if ctx.tier == "quick":
        plan = [(a, t, 4) for a in names for t in TABLES]
        extra = [names[(ctx.seed + i) % len(names)] for i in range(2)]
        plan += [(a, "default", 5) for a in extra]
    else:
        plan = [(a, t, 6 if len(ALPHABETS[a]) <= 9 else 5) for a in names for t in TABLES]
    idx = 0
    for (a, t, L) in plan:
        alpha = ALPHABETS[a]
        done = set() if L == 5 and ctx.tier == "quick" else None
        for n in range(0 if done is None else 5, L + 1):
            for tup in itertools.product(alpha, repeat=n):
                if idx % K == k:
                    ctx.check(dict(table=t, toks=list(tup)))
                idx += 1
        if k == 0:
            ctx.acc.exhaustive["%s/%s" % (a, t)] = "all strings of length %s<= %d over %s" % (
                "5 = " if done is not None else "", L, " ".join(alpha))
    ctx.drive("sampled", gen_case, ctx.n(1200, 25000), max_bytes=2000)
