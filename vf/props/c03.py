"""C03 - SMILES -> SELFIES -> SMILES round trip preserves the molecule atom for atom."""
from vf import gen_mol as GM
from vf import refsmiles
from vf import roundtrip as RTM
from vf.core import Fail, Result

ID = "C03"
LEVEL = "exploration"
RULE = ("abstract molecules (random trees of 1-40 atoms + ring edges, 1-3 fragments, organic-subset and bracket atoms with "
        "isotopes / charges up to 12 / explicit H / metals / atom classes, kekulizable aromatic rings, chirality, marks) each "
        "written as a SMILES spelling by an independent writer under drawn choices (roots, neighbour permutation, ring-digit "
        "interleaving, label policy incl. reuse/%nn/0, bond symbol on either ring end, explicit '-', bracket variants), "
        "mixed with corpus dataset SMILES; table fitted to the molecule (exactly or loosely) or drawn freely (then a violating "
        "molecule is outside the domain). Oracle: R1 reading of decoder(encoder(s, strict=True)) has the same atoms in the same "
        "order (element, isotope, charge, H count) and exactly the ground-truth bonds with the same order on every "
        "non-aromatic bond. non-trivial = >= 4 atoms and a ring closure or a branch; distinct = distinct (table, SMILES)")
ASSUMPTIONS = ["ground truth comes from the generator (R3), for corpus molecules from the independent reader R1",
               "ring spans and branch lengths >= 16^3 are outside the stated domain and are not generated here (C16 probes the boundary)",
               "on bonds that were aromatic in the input only 'order is 1 or 2' is asserted here (C05 judges the assignment); the hydrogen "
               "count of an unbracketed aromatic carbon is 3 minus its sigma bond-order sum (OpenSMILES)"]
SELFTESTS = [refsmiles.selftest, GM.selftest]


def compare(case, rt):
    t = case["truth"]
    m = rt.mol
    if len(m.atoms) != len(t["atoms"]):
        return Fail("atom_count", smiles=case["smiles"][:300], out=rt.smiles_out[:300], want=len(t["atoms"]), got=len(m.atoms))
    for i, a in enumerate(t["atoms"]):
        b = m.atoms[i]
        if (b["el"], b["iso"], b["charge"]) != (a["el"], a["iso"], a["charge"]):
            return Fail("atom_identity", index=i, want=[a["el"], a["iso"], a["charge"]], got=[b["el"], b["iso"], b["charge"]],
                        smiles=case["smiles"][:300], out=rt.smiles_out[:300])
        if b["h"] != a["h"]:
            return Fail("atom_hcount", index=i, want=a["h"], got=b["h"], smiles=case["smiles"][:300], out=rt.smiles_out[:300])
        if b["arom"]:
            return Fail("aromatic_atom_in_output", index=i, out=rt.smiles_out[:300])
    want = {(i, j): o for i, j, o in t["bonds"]}
    if set(want) != set(m.bonds):
        missing = sorted(set(want) - set(m.bonds))[:5]
        extra = sorted(set(m.bonds) - set(want))[:5]
        return Fail("bond_set", missing=missing, extra=extra, smiles=case["smiles"][:300], selfies=rt.selfies[:300], out=rt.smiles_out[:300])
    for k, o in want.items():
        g = m.bonds[k]
        if o == 1.5:
            if g not in (1, 2):
                return Fail("aromatic_bond_order", bond=k, got=g, smiles=case["smiles"][:300], out=rt.smiles_out[:300])
        elif g != o:
            return Fail("bond_order", bond=k, want=o, got=g, smiles=case["smiles"][:300], selfies=rt.selfies[:300], out=rt.smiles_out[:300])
    # hydrogen count of aromatic carbons written without brackets: 'c' carries 3 - (sum of its bond orders, aromatic
    # bonds counted once) hydrogens; the output atom 'C' carries 4 - (sum of its bond orders)  (OpenSMILES organic subset).
    # Non-aromatic organic-subset atoms need no such comparison: their bond orders were compared above.
    sum_in, sum_out = {}, {}
    for (i, j), o in want.items():
        for x in (i, j):
            sum_in[x] = sum_in.get(x, 0) + (1 if o == 1.5 else o)
            sum_out[x] = sum_out.get(x, 0) + m.bonds[(i, j)]
    for i, a in enumerate(t["atoms"]):
        if a["arom"] and a["h"] is None and a["el"].upper() == "C" and not a["charge"]:
            h_in = max(0, 3 - sum_in.get(i, 0))
            b = m.atoms[i]
            h_out = b["h"] if b["h"] is not None else max(0, 4 - sum_out.get(i, 0))
            if h_in != h_out:
                return Fail("aromatic_carbon_hcount", index=i, want=h_in, got=h_out, smiles=case["smiles"][:300], out=rt.smiles_out[:300])
    return None


def evaluate(case):
    rt = RTM.roundtrip(case)
    sample = dict(smiles=case["smiles"][:160], table=case["table"] if isinstance(case["table"], str) else "custom")
    if rt.skipped:
        reason = rt.skipped
        if reason == "encoder does not accept":
            v = RTM.violates(case["truth"], rt.table)
            reason = "violates table (C06 domain)" if v else ("encoder rejects (undecided aromatic capacity)" if v is None else "encoder rejects non-violating molecule")
        return Result(skipped=reason, classes=("skipped:" + reason,), sample=sample)
    fail = rt.fail or compare(case, rt)
    t = case["truth"]
    nontrivial = len(t["atoms"]) >= 4 and (t["ring_closures"] > 0 or "(" in case["smiles"])
    sample["selfies"] = (rt.selfies or "")[:160]
    sample["out"] = (rt.smiles_out or "")[:160]
    if fail is not None:
        fail.details.setdefault("table", case["table"])
    return Result(fail, nontrivial, RTM.classes_of(case, rt), sample=sample)


def gen_case(ch):
    return RTM.gen_case(ch, max_atoms=ch.weighted([(6, 14), (3, 30), (1, 40)]))


def gen_big(ch):
    return RTM.gen_case(ch, max_atoms=300, stereo=10, brackets=10, aromatic=0, corpus_percent=0)


def shard(ctx):
    # ring spans / branch lengths around the 1/2/3 index-symbol boundaries, plain and with marked ring-closure bonds
    for j, (name, smi) in enumerate(RTM.long_index_ladder(ctx.tier)):
        if j % ctx.nshards == ctx.shard:
            ctx.check(dict(table={"?": 8}, smiles=smi, truth=RTM.truth_from_reading(smi), source="template"))
    ctx.drive("main", gen_case, ctx.n(2500, 40000), max_bytes=900)
    ctx.drive("big", gen_big, ctx.n(60, 1500), max_bytes=6000)
