"""C04 - round trip preserves tetrahedral and double-bond stereochemistry."""
from vf import gen_mol as GM
from vf import refsmiles
from vf import roundtrip as RTM
from vf.core import Fail, Result
from vf.refsmiles import mark_dirs, parity

ID = "C04"
LEVEL = "exploration"
RULE = ("molecules and spellings as in C03 with a stereo-rich mix: chiral atoms that open rings, close rings, do both, carry "
        "2-3 ring digits in any label order, sit first in the string or carry an implicit H; marks on chain bonds, branch-initial "
        "bonds and ring-closure bonds at the opening end / closing end / both (also on ring spans needing 2-3 index symbols); a quarter of the cases with strict=False. Oracle: for every chiral atom the handedness bit "
        "(tag == '@@') xor parity(written neighbour order -> sorted) is the same in the input (ground truth of the writer) and in "
        "the output (R1); no atom gains or loses a tag; for every bond the set of mark directions 'seen walking low->high' is "
        "the same, and no bond gains a mark. non-trivial = a chiral atom with >= 1 ring bond, or a mark on a ring-closure bond; "
        "distinct = distinct SMILES")
ASSUMPTIONS = ["handedness is judged from the written neighbour order only (preceding atom, implicit H, ring-closure digits in "
               "order, branches), as the statement defines it; no CIP or chemistry-level notion of stereo",
               "a mark written at the closing end of a ring bond is read flipped (it is seen from the other atom)"]
SELFTESTS = [refsmiles.selftest, GM.selftest]


def hand(tag, nbrs):
    canon = (["H"] if "H" in nbrs else []) + sorted(x for x in nbrs if x != "H")
    return (1 if tag == "@@" else 0) ^ parity(nbrs, canon)


def evaluate(case):
    rt = RTM.roundtrip(case)
    sample = dict(smiles=case["smiles"][:160])
    if rt.skipped:
        return Result(skipped=rt.skipped, sample=sample)
    t = case["truth"]
    fail = rt.fail
    classes = RTM.classes_of(case, rt)
    if not case.get("strict", True):
        classes.append("strict=False")
    nontrivial = False
    ring_pairs = set()
    if fail is None:
        m = rt.mol
        sample["out"] = rt.smiles_out[:160]
        sample["selfies"] = rt.selfies[:200]
        if len(m.atoms) != len(t["atoms"]):
            fail = Fail("atom_count", smiles=case["smiles"][:300], out=rt.smiles_out[:300])
    if fail is None:
        # which ground-truth bonds are ring closures in the *input* spelling: those not parent/child in written order
        inp = RTM.truth_from_reading(case["smiles"])
        ring_pairs = set()
        if inp is not None:
            rin = refsmiles.read(case["smiles"])
            ring_pairs = set(rin.ring_bonds)
        for i, a in enumerate(t["atoms"]):
            tag_out = m.atoms[i]["chir"]
            if a["chir"] is None:
                if tag_out is not None:
                    fail = Fail("chirality_invented", index=i, smiles=case["smiles"][:300], out=rt.smiles_out[:300])
                    break
                continue
            if tag_out is None:
                fail = Fail("chirality_lost", index=i, smiles=case["smiles"][:300], out=rt.smiles_out[:300])
                break
            nb_in = t["nbrs"][str(i)]
            nb_out = m.nbrs[i]
            if sorted(map(str, nb_in)) != sorted(map(str, nb_out)):
                fail = Fail("chiral_neighbour_set", index=i, want=nb_in, got=nb_out, smiles=case["smiles"][:300], out=rt.smiles_out[:300])
                break
            on_ring = any((min(i, j), max(i, j)) in ring_pairs for j in nb_in if j != "H")
            if on_ring:
                nontrivial = True
                classes.append("chiral_on_ring_closure")
                nr = sum(1 for j in nb_in if j != "H" and (min(i, j), max(i, j)) in ring_pairs)
                if nr >= 2:
                    classes.append("chiral_with_2+_ring_digits")
            if nb_in and nb_in[0] == "H" or (nb_in and i == 0):
                classes.append("chiral_first_atom")
            if "H" in nb_in:
                classes.append("chiral_implicit_H")
            if hand(a["chir"], nb_in) != hand(tag_out, nb_out):
                kind = "ring" if on_ring else "chain"
                fail = Fail("handedness:" + kind, index=i, tag_in=a["chir"], nbrs_in=nb_in, tag_out=tag_out, nbrs_out=nb_out,
                            smiles=case["smiles"][:300], selfies=rt.selfies[:300], out=rt.smiles_out[:300])
                break
    if fail is None:
        want = {(i, j): c for i, j, c in t["marks"]}
        got = mark_dirs(m)
        for k, c in want.items():
            if k in ring_pairs:
                nontrivial = True
                classes.append("mark_on_ring_closure")
            g = got.get(k)
            if g is None:
                fail = Fail("mark_lost:" + ("ring" if k in ring_pairs else "chain"), bond=k, want=c, smiles=case["smiles"][:300],
                            selfies=rt.selfies[:300], out=rt.smiles_out[:300])
                break
            if g[0] != frozenset([c]):
                fail = Fail("mark_direction:" + ("ring" if k in ring_pairs else "chain"), bond=k, want=c, got=sorted(g[0]),
                            smiles=case["smiles"][:300], selfies=rt.selfies[:300], out=rt.smiles_out[:300])
                break
        if fail is None:
            for i, j, a, b in t.get("marks_raw", []):
                nontrivial = True
                g = got.get((i, j))
                if g is None or g[1] != (a, b):
                    fail = Fail("mark_direction:ring_both_ends", bond=[i, j], want=[a, b], got=(None if g is None else [sorted(g[0]), g[1]]),
                                smiles=case["smiles"][:300], selfies=rt.selfies[:300], out=rt.smiles_out[:300])
                    break
                want[(i, j)] = None
        if fail is None:
            extra = [k for k in got if k not in want]
            if extra:
                fail = Fail("mark_invented", bonds=extra[:4], smiles=case["smiles"][:300], out=rt.smiles_out[:300])
    return Result(fail, nontrivial, tuple(sorted(set(classes))), sample=sample)


def gen_case(ch):
    c = RTM.gen_case(ch, max_atoms=ch.weighted([(6, 12), (3, 24)]), stereo=80, brackets=15, aromatic=8, table_mode="fit",
                     corpus_percent=10)
    if c is not None and ch.bool(25):
        c["strict"] = False      # 'every SMILES the encoder accepts': the strict flag must not matter for stereo
    return c


def gen_ringy(ch):
    """small molecules with many ring edges: chiral atoms carrying several ring digits"""
    m = GM.gen_molecule(ch, max_atoms=9, stereo=95, brackets=5, aromatic=0, fragments=3, rings=8)
    w = GM.write(m, ch)
    if w is None:
        return None
    return dict(table=RTM.table_for(ch, w["truth"], "fit"), smiles=w["smiles"], truth=w["truth"], source="generated", strict=ch.bool(75))


def gen_digit_placement(ch):
    """small ring-rich molecules around atoms that can carry 5-6 bonds, spelled with ring digits before, between and
    after the branches of an atom (accepted, although OpenSMILES puts ring bonds first)"""
    m = GM.gen_molecule(ch, max_atoms=10, stereo=60, brackets=5, aromatic=0, fragments=3, rings=8, hubs=True)
    w = GM.write(m, ch, digit_after_branch=45)
    if w is None:
        return None
    return dict(table=RTM.table_for(ch, w["truth"], "fit"), smiles=w["smiles"], truth=w["truth"], source="generated")


def shard(ctx):
    # marks on ring-closure bonds whose ring span needs 1, 2 or 3 index symbols
    for j, (name, smi) in enumerate(RTM.long_index_ladder(ctx.tier)):
        if "mark" in name and j % ctx.nshards == ctx.shard:
            ctx.check(dict(table={"?": 8}, smiles=smi, truth=RTM.truth_from_reading(smi), source="template"))
    ctx.drive("main", gen_case, ctx.n(2000, 30000), max_bytes=800)
    ctx.drive("ringy", gen_ringy, ctx.n(1500, 25000), max_bytes=400)
    ctx.drive("digit_placement", gen_digit_placement, ctx.n(1500, 20000), max_bytes=500)
