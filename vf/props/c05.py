"""C05 - aromatic SMILES are kekulized correctly, or rejected, independent of atom order."""
import itertools

import selfies as sf

from vf import gen_arom as GA
from vf import gen_mol as GM
from vf import oracles as O
from vf import refkek as K
from vf import refsmiles
from vf.core import Chooser, Fail, Result, call

ID = "C05"
LEVEL = "exploration"
HANG_IS_VIOLATION = True     # kekulization of a system of <= 120 atoms takes milliseconds; 'accepts or raises EncoderError' implies it returns
RULE = ("aromatic systems: rings of size 3-8 fused on edges / bridged by paths, polyhedral cages (C60, C20, truncated tetra-/"
        "octahedron, prisms, Moebius ladders, Petersen graph, K4) and random cubic graphs up to 60 atoms; atom kinds by degree "
        "from the standard list (c, n, o, s, p, [nH], n(R), [n+](R), [nH+], c(R), c(=O), [pH], p(R)) or an extended list "
        "([c-], [c+], [cH-], [c], [n-], [o+], [s+], [se], [te], [as], [si], [b-], b ...); every system is spelled in 3-6 "
        "atom orders by the independent writer (aromatic bonds implicit or ':'). Oracle: standard systems - encoder accepts "
        "<=> a perfect matching of the needs-pi set exists within the aromatic bonds (R4); when accepted the output (R1) "
        "keeps skeleton / H / charges, every needs-pi atom has exactly one double bond along a former aromatic bond, every "
        "other aromatic atom none (extended kinds R4 cannot classify: at most one), and acceptance and the set of atoms "
        "carrying a double bond are the same for every atom order. Separately the matching routine on all graphs with <= 6 "
        "nodes, and random subcubic graphs of 8-40 nodes with shuffled adjacency lists: None <=> no perfect matching, else "
        "a fixed-point-free involution along edges. non-trivial = >= 2 fused rings or an odd ring or a hetero/charged atom, "
        "and the needs-pi graph is non-bipartite or the system has >= 20 atoms; distinct = distinct (system, spellings)")
ASSUMPTIONS = ["R4: an aromatic atom needs exactly one pi bond iff sigma + H + 1 equals its normal valence V(element, charge), none "
               "iff sigma + H == V; other atoms are 'unknown' and only weaker clauses are asserted for them",
               "which Kekule structure is chosen is not asserted",
               "completeness (accepts whenever an assignment exists) is asserted only for systems made of the standard kinds",
               "translation runs under a permissive table (hypervalent preset with '?': 12) so that strict mode never interferes"]
SELFTESTS = [refsmiles.selftest, K.selftest, GM.selftest]

_TABLE = dict(sf.get_preset_constraints("hypervalent")) if hasattr(sf, "get_preset_constraints") else None
TABLE = {"H": 1, "F": 1, "Cl": 7, "Br": 7, "I": 7, "B": 8, "B+1": 8, "B-1": 8, "O": 8, "O+1": 8, "O-1": 8, "N": 8, "N+1": 8, "N-1": 8,
         "C": 8, "C+1": 8, "C-1": 8, "P": 8, "P+1": 8, "P-1": 8, "S": 8, "S+1": 8, "S-1": 8, "?": 12}

try:
    from selfies.utils.matching_utils import find_perfect_matching as _fpm
except Exception:  # noqa - renamed/moved: the routine-level sub-check is reported as skipped
    _fpm = None


def _bipartite(nodes, adj):
    color = {}
    for s in nodes:
        if s in color:
            continue
        color[s] = 0
        st = [s]
        while st:
            x = st.pop()
            for y in adj[x]:
                if y not in nodes:
                    continue
                if y not in color:
                    color[y] = 1 - color[x]
                    st.append(y)
                elif color[y] == color[x]:
                    return False
    return True


def analyse(mol):
    """per aromatic node: needs_pi (True/False/None), standard?; aromatic adjacency"""
    n = len(mol["atoms"])
    sigma = [0] * n
    aadj = {i: set() for i in range(n) if mol["atoms"][i]["arom"]}
    for a, b, o in mol["bonds"]:
        c = 1 if o == 1.5 else o
        sigma[a] += c
        sigma[b] += c
        if o == 1.5:
            aadj[a].add(b)
            aadj[b].add(a)
    need = {}
    standard = True
    for i in aadj:
        at = mol["atoms"][i]
        need[i] = K.needs_pi(at["el"], at["charge"], at["h"], sigma[i])
        if not K.is_standard_kind(at["el"], at["charge"], at["h"], sigma[i]) or need[i] is None:
            standard = False
    return need, standard, aadj, sigma


def eval_system(case):
    O.use_table(TABLE)
    mol = case["mol"]
    need, standard, aadj, sigma = analyse(mol)
    S = sorted(i for i, v in need.items() if v)
    pos = {v: k for k, v in enumerate(S)}
    padj = [[pos[y] for y in aadj[x] if y in pos] for x in S]
    pm = K.has_perfect_matching(len(S), padj) if all(v is not None for v in need.values()) else None
    classes = ["standard_kinds" if standard else "extended_kinds", case.get("topology", "?").rstrip("0123456789")]
    n_ar = len(aadj)
    nonbip = not _bipartite(set(S), aadj)
    hetero = any(mol["atoms"][i]["el"] != "C" or mol["atoms"][i]["charge"] for i in aadj)
    n_rings = sum(len(v) for v in aadj.values()) // 2 - n_ar + 1
    nontrivial = (n_rings >= 2 or hetero or n_ar % 2 == 1) and (nonbip or n_ar >= 20)
    if any(o == 1 and mol["atoms"][a]["arom"] and mol["atoms"][b]["arom"] for a, b, o in mol["bonds"]):
        classes.append("single_bond_between_aromatic_atoms")
    if nonbip:
        classes.append("needs_pi_graph_non_bipartite")
    if n_ar >= 20:
        classes.append("aromatic_atoms>=20")
    if pm:
        classes.append("matchable")
    elif pm is False:
        classes.append("unmatchable")
    outcomes = []
    dsets = []
    fail = None
    sample = dict(smiles=[sp["smiles"][:120] for sp in case["spellings"][:2]], topology=case.get("topology"))
    for sp in case["spellings"]:
        s = sp["smiles"]
        order = sp["order"]          # written index -> node
        r = O.encode(s, strict=False)
        if r[0] == "exc":
            fail = Fail("encoder:" + r[1], smiles=s[:300], error=r[2])
            break
        acc = r[0] == "ok"
        outcomes.append(acc)
        rs = O.encode(s, strict=True)
        if rs[0] == "exc":
            fail = Fail("encoder:" + rs[1], smiles=s[:300], error=rs[2])
            break
        if standard and pm is not None and acc != pm:
            fail = Fail("kek:accept_mismatch:" + ("false_reject" if pm else "false_accept"), smiles=s[:300], matching_exists=pm,
                        needs_pi=len(S))
            break
        if not acc:
            continue
        d = O.decode(r[1])
        if d[0] != "ok":
            fail = Fail("decode_of_encoder_output_failed", smiles=s[:300], selfies=r[1][:300], got=d)
            break
        try:
            out = refsmiles.read(d[1])
        except refsmiles.SmilesError as e:
            fail = Fail("output_unreadable:" + e.kind.split(":")[0], smiles=s[:300], out=d[1][:300])
            break
        if len(out.atoms) != len(order):
            fail = Fail("kek:atom_count", smiles=s[:300], out=d[1][:300])
            break
        widx = {node: i for i, node in enumerate(order)}
        want_bonds = {}
        for a, b, o in mol["bonds"]:
            i, j = sorted((widx[a], widx[b]))
            want_bonds[(i, j)] = o
        if set(want_bonds) != set(out.bonds):
            fail = Fail("kek:skeleton_changed", smiles=s[:300], out=d[1][:300])
            break
        for i, node in enumerate(order):
            at, ob = mol["atoms"][node], out.atoms[i]
            hw = at["h"] if (at["h"] is not None) else None
            if (ob["el"], ob["charge"], ob["iso"]) != (at["el"], at["charge"], at.get("iso")) or ob["h"] != hw:
                fail = Fail("kek:atom_changed", index=i, want=[at["el"], at["charge"], at["h"]], got=[ob["el"], ob["charge"], ob["h"]],
                            smiles=s[:300], out=d[1][:300])
                break
        if fail:
            break
        dbl = {}
        for k, o in want_bonds.items():
            g = out.bonds[k]
            if o == 1.5:
                if g == 2:
                    for e in k:
                        dbl[order[e]] = dbl.get(order[e], 0) + 1
                elif g != 1:
                    fail = Fail("kek:aromatic_bond_order", got=g, smiles=s[:300], out=d[1][:300])
                    break
            elif g != o:
                fail = Fail("kek:non_aromatic_bond_changed", want=o, got=g, smiles=s[:300], out=d[1][:300])
                break
        if fail:
            break
        for node in aadj:
            c = dbl.get(node, 0)
            v = need[node]
            at = mol["atoms"][node]
            desc = "%s,%+d,h%s,sigma%d" % (at["el"], at["charge"], "-" if at["h"] is None else at["h"], sigma[node])
            if c > 1:
                fail = Fail("kek:non-matching", atom=desc, double_bonds=c, smiles=s[:300], out=d[1][:300])
                break
            if v is True and c != 1:
                # distinguish a wrong classification of this atom kind from a broken matching
                others_ok = all(dbl.get(x, 0) == (1 if need[x] else 0) for x in aadj if need[x] is not None and x != node)
                fail = Fail(("kek:misprune:" + desc) if (pm is False or not standard) else "kek:non-matching", atom=desc, double_bonds=c,
                            smiles=s[:300], out=d[1][:300], others_consistent=others_ok)
                break
            if v is False and c != 0:
                fail = Fail("kek:misprune:" + desc, atom=desc, double_bonds=c, smiles=s[:300], out=d[1][:300])
                break
        if fail:
            break
        if rs[0] != "ok":
            fail = Fail("kek:strict_rejects_correct_kekule_structure", smiles=s[:300], error=str(rs)[:200])
            break
        dsets.append(tuple(sorted(x for x, c in dbl.items() if c)))
    if fail is None and len(set(outcomes)) > 1:
        fail = Fail("kek:order_dependent_acceptance", spellings=[sp["smiles"][:200] for sp in case["spellings"]], accepted=outcomes,
                    matching_exists=pm)
    if fail is None and len(set(dsets)) > 1:
        fail = Fail("kek:order_dependent_pi_atoms", spellings=[sp["smiles"][:200] for sp in case["spellings"]])
    if outcomes and outcomes[0]:
        classes.append("accepted")
    else:
        classes.append("rejected")
    return Result(fail, nontrivial, classes, sample=sample)


def _one_graph(n, adj):
    """None, or Fail for one graph"""
    from vf import totality as TT
    r = TT.run_call(lambda: _fpm([list(a) for a in adj]), (), watchdog=30)
    if r[0] == "hang":
        return Fail("matching:no_result_within_30s", n=n, adj=adj)
    if r[0] == "exc":
        return Fail("matching:" + r[1], n=n, adj=adj, error=r[2])
    m = r[1]
    exists = K.has_perfect_matching(n, adj)
    if m is None:
        return Fail("matching:false_none", n=n, adj=adj) if exists else None
    if not K.is_perfect_matching(n, adj, list(m)):
        return Fail("kek:non-matching", n=n, adj=adj, returned=list(m), matching_exists=exists)
    return None


def eval_graph(case):
    if _fpm is None:
        return Result(skipped="matching routine not importable")
    if case["kind"] == "graph_batch":
        # many graphs per case: the routine-level defects seen so far show up once in a few thousand graphs
        n_nb = 0
        for g in case["graphs"]:
            n = len(g)
            f = _one_graph(n, g)
            if f is not None:
                return Result(f, True, ("graph_batch",), extra=len(case["graphs"]) - 1)
            if not _bipartite(set(range(n)), {i: set(a) for i, a in enumerate(g)}):
                n_nb += 1
        return Result(None, n_nb > 0, ("graph_batch", "family_" + case.get("family", "?")), extra=len(case["graphs"]) - 1,
                      sample=dict(family=case.get("family"), graphs=len(case["graphs"]), first=case["graphs"][0] if case["graphs"] else None))
    n = case["n"]
    adj = [list(a) for a in case["adj"]]
    nb = not _bipartite(set(range(n)), {i: set(a) for i, a in enumerate(adj)})
    classes = ["graph", "graph_non_bipartite" if nb else "graph_bipartite"]
    return Result(_one_graph(n, adj), nb, classes, sample=dict(n=n, adj=adj))


def evaluate(case):
    if case["kind"] in ("graph", "graph_batch"):
        return eval_graph(case)
    return eval_system(case)


# ------------------------------------------------------------------------------------------ generation


def mol_json(m):
    atoms = [dict(el=a["el"], charge=a["charge"], h=a["h"], arom=a["arom"], kind=a.get("kind"), iso=a["iso"]) for a in m.atoms]
    bonds = []
    for key, o in m.order.items():
        a, b = sorted(key)
        bonds.append([a, b, o])
    return dict(atoms=atoms, bonds=sorted(bonds))


def spell(m, ch, k):
    sps = []
    for _ in range(k):
        w = GM.write(m, ch, variants=False)
        if w is None:
            return None
        sps.append(dict(smiles=w["smiles"], order=w["order"]))
    return sps


def gen_system_case(ch, extended=False, allow_cage=True):
    name, adj, kinds = GA.gen_system(ch, extended=extended, allow_cage=allow_cage)
    # even out the parity of the needs-pi set about half of the time, otherwise most systems are trivially unmatchable
    m = GA.build(adj, kinds)
    mj = mol_json(m)
    need, standard, aadj, sigma = analyse(mj)
    if sum(1 for v in need.values() if v) % 2 == 1 and ch.bool(60):
        twos = [x for x in sorted(adj) if len(adj[x]) == 2 and kinds[x] == "c"]
        if twos:
            kinds[ch.pick(twos)] = ch.pick(GA.PI_FREE_2)
            m = GA.build(adj, kinds)
            mj = mol_json(m)
    if ch.bool(25) and name == "fused":
        # declare 1-2 bonds *inside* the ring system single (written '-', as chain bond or on one/both sides of a
        # ring closure): the atoms stay aromatic, the bond must stay single and takes no part in the pi system
        # only bonds whose two atoms keep at least two aromatic bonds each (fusion bonds, as the 5-5 bond of pentalene
        # or the 5-7 bond of azulene): an "aromatic" atom left with fewer aromatic bonds is not part of any aromatic
        # ring and its meaning is undefined
        def arom_degree(x):
            return sum(1 for y in m.adj[x] if m.order[frozenset((x, y))] == 1.5)
        for _ in range(ch.int(1, 2)):
            keys = sorted(tuple(sorted(k)) for k, o in m.order.items()
                          if o == 1.5 and all(arom_degree(x) >= 3 for x in k))
            if keys:
                a, b = ch.pick(keys)
                m.order[frozenset((a, b))] = 1
        mj = mol_json(m)
    if ch.bool(15):
        # isotope labels on ring atoms that are otherwise written without brackets ([13cH], [13c], [15n], [18o], [34s]): the same
        # atom kinds in their bracket spelling (explicit H count); judged by the correctness-if-accepted clauses only
        iso = {"C": 13, "N": 15, "O": 18, "S": 34, "P": 32}
        p_label = ch.pick([15, 50, 100])
        for i, a in enumerate(m.atoms):
            if a["arom"] and not a["bracket"] and a["el"] in iso and ch.bool(p_label):
                sig = sum((1 if m.order[frozenset((i, y))] == 1.5 else m.order[frozenset((i, y))]) for y in m.adj[i])
                a["iso"] = iso[a["el"]]
                a["bracket"] = True
                a["h"] = 1 if (a["el"] == "C" and sig == 2) else 0
        mj = mol_json(m)
    if len(m.atoms) > 70 and name not in ("C60",):
        return None
    sps = spell(m, ch, ch.int(3, 6) if len(m.atoms) < 40 else 3)
    if sps is None:
        return None
    return dict(kind="system", topology=name, mol=mj, spellings=sps)


def gen_c60_orders(ch):
    adj = GA.cage(ch.weighted([(5, "C60"), (1, "C20"), (1, "trunc_octa"), (1, "petersen")]))
    if ch.bool(40):
        # a second, separate aromatic system in the same SMILES (all systems are kekulized in one go)
        n0 = len(adj)
        k = ch.pick([6, 6, 10])
        if k == 6:
            extra = {i: {(i + 1) % 6, (i - 1) % 6} for i in range(6)}
        else:
            extra = {i: set() for i in range(10)}
            for a, b in [(0, 1), (1, 2), (2, 3), (3, 4), (4, 5), (5, 0), (4, 6), (6, 7), (7, 8), (8, 9), (9, 5)]:
                extra[a].add(b)
                extra[b].add(a)
        if ch.bool(50):
            # the small system gets the low node numbers
            adj = dict([(i, set(v)) for i, v in extra.items()] + [(i + k, {j + k for j in v}) for i, v in adj.items()])
        else:
            adj = dict(list(adj.items()) + [(i + n0, {j + n0 for j in v}) for i, v in extra.items()])
    m = GA.build(adj, {x: "c" for x in adj})
    sps = spell(m, ch, 4)
    if sps is None:
        return None
    return dict(kind="system", topology="cage_orders", mol=mol_json(m), spellings=sps)


def _one_random_graph(ch, family):
    if family == "cubic":
        n = 2 * ch.int(4, 30)
        g = GA.random_cubic(ch, n)
        adj = [sorted(g[i]) for i in range(n)]
    elif family == "cage_relabelled":
        g0 = GA.cage(ch.weighted([(6, "C60"), (1, "C20"), (1, "trunc_octa"), (1, "petersen"), (1, "prism5"), (1, "moebius5")]))
        n = len(g0)
        perm = ch.shuffle(list(range(n)))
        adj = [None] * n
        for a, bs in g0.items():
            adj[perm[a]] = [perm[b] for b in sorted(bs)]
    else:
        n = ch.pick([8, 10, 12, 14, 16, 20, 24, 30, 40])
        adj = [[] for _ in range(n)]
        for _ in range(ch.int(n // 2, int(1.6 * n))):
            a, b = ch.below(n), ch.below(n)
            if a == b or b in adj[a] or len(adj[a]) >= 3 or len(adj[b]) >= 3:
                continue
            adj[a].append(b)
            adj[b].append(a)
    if ch.bool(30):
        # an even cycle as a separate first component: the routine works on all aromatic systems of a molecule at once
        k = ch.pick([4, 6, 6, 8])
        adj = [[(i + 1) % k, (i - 1) % k] for i in range(k)] + [[j + k for j in a] for a in adj]
    return [ch.shuffle(a) for a in adj]


def gen_graph(ch):
    adj = _one_random_graph(ch, "subcubic")
    return dict(kind="graph", n=len(adj), adj=adj)


def gen_graph_batch(ch):
    family = ch.weighted([(4, "cubic"), (4, "cage_relabelled"), (2, "subcubic")])
    k = 24
    return dict(kind="graph_batch", family=family, graphs=[_one_random_graph(ch, family) for _ in range(k)])


def shard(ctx):
    k, K_ = ctx.shard, ctx.nshards
    # all graphs on <= 6 labelled nodes (adjacency lists in two orders), split over the shards
    if _fpm is not None:
        idx = 0
        for n in range(0, 7):
            pairs = list(itertools.combinations(range(n), 2))
            if ctx.tier == "quick" and n == 6:
                masks = range(0, 1 << len(pairs), 3)   # every third graph on 6 nodes in quick, all in thorough
            else:
                masks = range(1 << len(pairs))
            for mask in masks:
                if idx % K_ == k:
                    adj = [[] for _ in range(n)]
                    for b, (x, y) in enumerate(pairs):
                        if mask >> b & 1:
                            adj[x].append(y)
                            adj[y].append(x)
                    ctx.check(dict(kind="graph", n=n, adj=adj))
                    ctx.check(dict(kind="graph", n=n, adj=[a[::-1] for a in adj]))
                idx += 1
        if k == 0:
            ctx.acc.exhaustive["graphs"] = "matching routine on all labelled graphs with <= %s nodes, adjacency lists ascending and descending" % (
                "5 (and every third graph on 6)" if ctx.tier == "quick" else "6")
    else:
        ctx.acc.notes["matching_routine_skipped_not_importable"] += 1
    ctx.drive("standard", lambda ch: gen_system_case(ch, extended=False), ctx.n(500, 12000), max_bytes=1500)
    ctx.drive("extended", lambda ch: gen_system_case(ch, extended=True), ctx.n(300, 8000), max_bytes=1500)
    ctx.drive("cage_orders", gen_c60_orders, ctx.n(40, 2500), max_bytes=1200)
    ctx.drive("graphs", gen_graph, ctx.n(1000, 20000), max_bytes=300)
    ctx.drive("graph_batches", gen_graph_batch, ctx.n(500, 10000), max_bytes=6000)
