"""C06 - strict encoding rejects exactly the constraint-violating molecules."""
import selfies as sf

from vf import gen_mol as GM
from vf import gen_table as T
from vf import oracles as O
from vf import refderive as R
from vf import refsmiles
from vf.core import Fail, Result, call

ID = "C06"
LEVEL = "exploration"
RULE = ("molecules (non-aromatic, and kekulizable monocyclic aromatic rings of standard kinds) with charges, explicit H and "
        "elements covered only by '?', each with a sequence of 2-5 tables: the molecule's own per-key maximum usage shifted by "
        "delta in {-1, 0, 0, +1} on a drawn subset of keys over a drawn preset, '?' in 0..8 - so tables change between calls. "
        "Oracle: ground-truth usage u(atom) = sum of bond orders (aromatic: sigma + [needs pi]) + explicit H; with strict=True "
        "EncoderError <=> some u exceeds R5.capacity under the table read back from get_semantic_constraints(); strict=False "
        "never raises and returns the same string under every table of the sequence, equal to every strict result. "
        "non-trivial = some atom at capacity -1, 0 or +1 in some step; distinct = distinct (SMILES, table sequence)")
ASSUMPTIONS = ["usage is computed from the generator's ground truth (R3), capacity by R5",
               "aromatic atoms of kind c / n need exactly one pi bond, o / s / [nH] / [se] / substituted n none (monocyclic rings "
               "that are kekulizable by construction)",
               "for arbitrary (also unparseable / unkekulizable) text only 'the strict=False outcome is the same under every table' is asserted"]
SELFTESTS = [refsmiles.selftest, GM.selftest]

NEEDS_PI = {"c": 1, "n": 1, "o": 0, "s": 0, "[nH]": 0, "[se]": 0, "n(R)": 0}


def usages(truth):
    n = len(truth["atoms"])
    s = [0] * n
    for i, j, o in truth["bonds"]:
        c = 1 if o == 1.5 else o
        s[i] += c
        s[j] += c
    out = []
    for i, a in enumerate(truth["atoms"]):
        u = s[i] + (a["h"] or 0)
        if a["arom"]:
            u += NEEDS_PI[a["kind"]]
        out.append((a["el"], a["charge"], u))
    return out


def evaluate_outcome_only(case):
    """arbitrary SMILES-like text (also unparseable / unkekulizable): with strict=False the outcome - the returned
    string or EncoderError - must not depend on the table in force; a strict result, where there is one, equals it"""
    smi = case["smiles"]
    outcomes = []
    stricts = []
    for step in case["steps"]:
        O.forget_table()
        if O.use_table(step) is None:
            return Result(skipped="table not accepted by the library")
        r = O.encode(smi, strict=False)
        if r[0] == "exc":
            return Result(Fail("nonstrict:" + r[1], smiles=smi[:300], error=r[2]))
        outcomes.append(r if r[0] == "ok" else ("err",))
        rs = O.encode(smi, strict=True)
        if rs[0] == "ok":
            stricts.append(rs[1])
    fail = None
    if len(set(outcomes)) > 1:
        fail = Fail("nonstrict:outcome_depends_on_table", smiles=smi[:300], outcomes=[str(o)[:120] for o in sorted(set(outcomes))[:2]],
                    tables=[(t if isinstance(t, str) else _short(t)) for t in case["steps"]][:3])
    elif stricts and (outcomes[0][0] != "ok" or any(x != outcomes[0][1] for x in stricts)):
        fail = Fail("strict_result_differs_from_nonstrict", smiles=smi[:300], strict=stricts[0][:200], nonstrict=str(outcomes[0])[:200])
    cl = ["outcome_only", "accepted" if outcomes[0][0] == "ok" else "rejected_under_every_table"]
    return Result(fail, outcomes[0][0] == "ok", cl, sample=dict(smiles=smi[:160], steps=len(case["steps"])))


def evaluate(case):
    if case.get("kind") == "outcome_only":
        return evaluate_outcome_only(case)
    truth = case["truth"]
    smi = case["smiles"]
    us = usages(truth)
    fail = None
    classes = set()
    nontrivial = False
    nonstrict = []
    strict_results = []
    mutate_after = case.get("mutate_passed", [])
    for k, step in enumerate(case["steps"]):
        O.forget_table()
        if isinstance(step, str):
            table = O.use_table(step)
            if table is None:
                return Result(skipped="table not accepted by the library")
        else:
            # the caller keeps (and may later edit) the dict it passed: the table in force is what was passed
            # at the time of the call (C12), which is what the verdict is computed from
            passed = dict(step)
            r0 = call(sf.set_semantic_constraints, passed)
            if r0[0] != "ok":
                return Result(skipped="table not accepted by the library")
            if k < len(mutate_after) and mutate_after[k]:
                for key in list(passed):
                    passed[key] = (passed[key] + 3) if mutate_after[k] == 1 else 0
                classes.add("caller_edits_passed_dict_after_set")
            table = dict(step)
            got = sf.get_semantic_constraints()
            if got != table:
                fail = Fail("table_in_force_differs_from_table_set", set=_short(table), read_back=_short(got))
                break
        if fail is None and k < len(case.get("rejected_update", [])) and case["rejected_update"][k]:
            # an update that is rejected (the caller catches the ValueError and carries on) must leave the table in force alone
            bad = {key: (v + 2 + k) % 7 for key, v in table.items()}
            bad[["Qq", "C+", "", "c"][case["rejected_update"][k] % 4]] = 1
            rb = call(sf.set_semantic_constraints, bad, expected=(ValueError,))
            if rb[0] == "ok":
                return Result(skipped="candidate-invalid table accepted (C12's business)")
            classes.add("rejected_update_before_the_check")
        worst = None
        at_edge = False
        for el, q, u in us:
            cap = R.capacity(table, el, q)
            if u > cap and (worst is None or u - cap > worst[3] - worst[4]):
                worst = (el, q, u, u, cap)
            if abs(u - cap) <= 1:
                at_edge = True
        violating = worst is not None
        if at_edge:
            nontrivial = True
        attr = bool(case.get("attribute"))
        r = O.encode(smi, strict=True, attribute=attr)
        if r[0] == "exc":
            fail = Fail("strict:" + r[1], smiles=smi[:300], error=r[2])
            break
        if r[0] == "ok" and attr:
            # the verdict must not depend on the attribution being asked for
            classes.add("attribute_flag")
            if not (isinstance(r[1], tuple) and len(r[1]) == 2 and isinstance(r[1][0], str)):
                fail = Fail("strict:attributed_result_shape", smiles=smi[:300], got=repr(r[1])[:200])
                break
            r = ("ok", r[1][0])
        raised = r[0] == "err"
        classes.add("violating" if violating else "conforming")
        if raised != violating:
            if violating:
                el, q, u, _, cap = worst
                fail = Fail("strict:missed_violation", smiles=smi[:300], atom=[el, q], usage=u, capacity=cap, table=_short(table))
            else:
                fail = Fail("strict:spurious_rejection", smiles=smi[:300], table=_short(table), error=_why(smi))
            break
        if not raised:
            strict_results.append(r[1])
        r2 = O.encode(smi, strict=False)
        if r2[0] != "ok":
            fail = Fail("nonstrict:raised", smiles=smi[:300], got=r2, table=_short(table))
            break
        nonstrict.append(r2[1])
    if fail is None:
        if len(set(nonstrict)) > 1:
            fail = Fail("nonstrict:depends_on_table", smiles=smi[:300], results=[x[:120] for x in sorted(set(nonstrict))[:2]])
        elif strict_results and set(strict_results) != set(nonstrict[:1]):
            fail = Fail("strict_result_differs_from_nonstrict", smiles=smi[:300], strict=strict_results[0][:200], nonstrict=nonstrict[0][:200])
    if len(classes) == 2:
        classes.add("verdict_changes_within_sequence")
    if any(a["arom"] for a in truth["atoms"]):
        classes.add("aromatic")
    if any(a["charge"] for a in truth["atoms"]):
        classes.add("charged_atom")
    if any(a["el"] not in R.DEFAULT for a in truth["atoms"]):
        classes.add("element_only_under_?")
    return Result(fail, nontrivial, tuple(sorted(classes)), sample=dict(smiles=smi[:160], steps=len(case["steps"])))


def _short(table):
    return {k: v for k, v in table.items() if k not in R.DEFAULT or R.DEFAULT[k] != v}


def _why(smi):
    try:
        sf.encoder(smi, strict=True)
    except sf.EncoderError as e:
        return str(e)[-300:]
    return None


def gen_case(ch):
    m = GM.gen_molecule(ch, max_atoms=ch.weighted([(6, 10), (2, 24)]), stereo=10, brackets=45, aromatic=25)
    w = GM.write(m, ch)
    if w is None:
        return None
    truth = w["truth"]
    need = {}
    for el, q, u in usages(truth):
        key = el if q == 0 else "%s%+d" % (el, q)
        need[key] = max(need.get(key, 0), u)
    steps = []
    for _ in range(ch.int(2, 5)):
        if ch.bool(12):
            steps.append(ch.pick(T.PRESET_NAMES))
            continue
        t = dict(R.PRESETS[ch.pick(T.PRESET_NAMES)])
        t["?"] = ch.int(0, 8)
        for key, u in need.items():
            if ch.bool(65):
                t[key] = max(0, u + ch.pick([-1, 0, 0, 1]))
        steps.append(t)
    return dict(smiles=w["smiles"], truth=truth, steps=steps, mutate_passed=[ch.weighted([(6, 0), (1, 1), (1, 2)]) for _ in steps],
                rejected_update=[(ch.int(1, 4) if ch.bool(12) else 0) for _ in steps], attribute=ch.bool(20))


EXOTIC = ["c1cccc:[GeH]:1", "c1cc:[GeH]:[GeH]:c1", "c1ccc:[SnH2]:1", "C:[Ge]:C", "[SbH]1:c:c:c:c:1", "c1cc[bi]c1", "[GeH]1:C:C:C:C:1",
          "C1=C[GeH]=CC=C1", "[SiH4]", "[CH5]", "C[OH3]C", "[FH2]", "[NH5]", "[SnH6]", "C[IH2]", "[Fe]:1:C:C:1", "c1ccccc1[PbH5]", "[te]1cccc1",
          "c1cc[siH]cc1", "[alH]1cccc1"]


def gen_outcome_only(ch):
    from vf import gen_text as GT
    w = ch.weighted([(4, "exotic"), (4, "text"), (2, "exotic_mutated")])
    if w == "exotic":
        smi = ch.pick(EXOTIC)
    elif w == "text":
        smi = GT.gen_smiles_text(ch)
    else:
        smi = GT.mutate_text(ch, ch.pick(EXOTIC))
    steps = []
    for _ in range(ch.int(2, 4)):
        t = T.gen_valid_table(ch)
        if not isinstance(t, str) and ch.bool(60):
            t[ch.pick(["Ge", "Sn", "Sb", "Bi", "Si", "Pb", "Te", "C", "N", "O", "F", "I"])] = ch.int(0, 6)
            t["?"] = ch.int(0, 8)
        steps.append(t)
    return dict(kind="outcome_only", smiles=smi[:400], steps=steps)


def shard(ctx):
    ctx.drive("main", gen_case, ctx.n(2500, 40000), max_bytes=800)
    ctx.drive("outcome_only", gen_outcome_only, ctx.n(800, 12000), max_bytes=500)
