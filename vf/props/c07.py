"""C07 - any string over the semantically robust alphabet is a valid molecule."""
import selfies as sf

from vf import gen_selfies as G
from vf import gen_table as T
from vf import oracles as O
from vf import refderive as R
from vf import refsmiles
from vf.core import Fail, Result, call

ID = "C07"
LEVEL = "exploration"
RULE = ("tables: documented-valid ones (presets, tweaked presets, fresh dicts with any listed elements/charges and "
        "capacities incl. 0 and > 8) and candidate-invalid ones (whether the library accepts one is observed); for every "
        "accepted table: the returned alphabet must contain the documented members (R5), every member must decode on its "
        "own, and strings over it (uniform, and state-aware restricted to the alphabet) must decode without error into a "
        "molecule obeying the table (C01 oracle); after a further table change the alphabet is that of the new table. "
        "non-trivial = custom table with >= 1 charged key and a string of >= 10 symbols yielding >= 5 atoms; "
        "distinct = distinct (table, string)")
ASSUMPTIONS = ["expected members per the statement: 16 index symbols, every [''/=/#BranchL], [RingL], [=RingL], and [bK] for every "
               "key K != '?' and bond prefix b whose order does not exceed table[K]",
               "validity of decoded molecules judged as in C01 (R1 + capacity lookup)"]
SELFTESTS = [refsmiles.selftest, R.selftest]


def evaluate(case):
    kind = case["kind"]
    if kind == "candidate_invalid":
        arg = case["arg"]
        if isinstance(arg, dict):
            arg = {_unjson_key(k): v for k, v in arg.items()}
        O.forget_table()
        O.use_table("default")
        O.forget_table()
        r = call(sf.set_semantic_constraints, arg, expected=(ValueError,))
        if r[0] == "err":
            return Result(None, False, ("rejected_" + case["klass"],))
        if r[0] == "exc":
            # documented classes must raise ValueError; other junk (non-string keys) only must not corrupt state (C12)
            return Result(None, False, ("raised_other_" + case["klass"],))
        # accepted: then the alphabet contract applies to it
        table = sf.get_semantic_constraints()
        f = _alphabet_contract(table, sample=8)
        if f is None and case.get("picks"):
            # strings over the alphabet of this (accepted) table: decodable, and the molecule obeys the table
            alphabet = sorted(sf.get_semantic_robust_alphabet())
            picks = case["picks"]
            for k in range(0, len(picks), 12):
                s = "".join(alphabet[i % len(alphabet)] for i in picks[k:k + 12])
                r = O.decode(s)
                if r[0] != "ok":
                    f = Fail("string:decoder_raises", selfies=s[:300], table=str(case["arg"])[:300], got=r)
                    break
                try:
                    f = O.valence_fail(refsmiles.read(r[1]), table)
                except Exception as e:  # noqa - a table with values the capacity lookup cannot compare
                    f = Fail("string:output_not_judgeable_under_accepted_table", selfies=s[:300], table=str(case["arg"])[:300], error=repr(e)[:200])
                if f is not None:
                    f.details.update(selfies=s[:300], table=str(case["arg"])[:300])
                    break
        O.forget_table()
        if f is not None:
            doc = R.table_is_documented(table)
            f.details["table_is_documented_form"] = doc
            if not doc:
                f = Fail("table:noncanonical-key-accepted:" + f.sig, **f.details)
        return Result(f, False, ("accepted_" + case["klass"],), sample=dict(arg=str(case["arg"])[:200]))
    spec = case["table"]
    O.forget_table()
    table = O.use_table(spec)
    if table is None:
        if R.table_is_documented(T.table_dict(spec)):
            return Result(Fail("table:documented_table_rejected", table=spec))
        return Result(skipped="table not accepted")
    f = _alphabet_contract(table, sample=0)
    alpha = call(sf.get_semantic_robust_alphabet)
    classes = ["custom_table"] if not isinstance(spec, str) else ["preset"]
    charged = any(("+" in k or "-" in k) for k in table if k not in R.DEFAULT)
    if charged:
        classes.append("custom_charged_key")
    if f is not None:
        return Result(f, False, classes)
    alphabet = sorted(alpha[1])
    # string over the returned alphabet, chosen by index so that the case stays JSON
    toks = [alphabet[i % len(alphabet)] for i in case["picks"]]
    if case.get("prefer"):
        # state-aware flavour: replace symbols that are not in the alphabet by members
        toks = [t if t in alpha[1] else alphabet[(7 * j + 3) % len(alphabet)] for j, t in enumerate(case["prefer"])]
    s = "".join(toks)
    r = O.decode(s)
    sample = dict(table=spec if isinstance(spec, str) else {k: v for k, v in spec.items() if k not in R.DEFAULT or R.DEFAULT[k] != v},
                  selfies=s[:200])
    if r[0] != "ok":
        bad = [t for t in set(toks) if O.decode(t)[0] != "ok"]
        return Result(Fail("string:decoder_raises" if not bad else "alphabet:member_undecodable", selfies=s[:300], table=spec,
                           got=r, undecodable=bad[:5]), False, classes, sample=sample)
    out = r[1]
    sample["smiles"] = out[:200]
    try:
        rm = R.derive(s, table)
    except R.Reject as e:
        return Result(Fail("alphabet:member_outside_grammar", symbol=str(e), table=spec), False, classes, sample=sample)
    sm, f = O.read_output(out, rm)
    if f is None:
        f = O.valence_fail(sm, table)
        if f is not None:
            f = O.label_over_99(out, rm, f.sig) or f
    if f is not None:
        f.details.update(selfies=s[:300], table=spec)
    nontrivial = (not isinstance(spec, str)) and charged and len(toks) >= 10 and len(rm.atoms) >= 5
    if case.get("then"):
        # a further change: the alphabet must follow the table in force
        t2 = O.use_table(case["then"])
        if t2 is not None and f is None:
            f = _alphabet_contract(t2, sample=0)
            if f is not None:
                f = Fail("alphabet:stale_after_change:" + f.sig, **f.details)
            classes.append("alphabet_after_second_change")
    return Result(f, nontrivial, classes, sample=sample)


def _unjson_key(k):
    return k


def _alphabet_contract(table, sample=0):
    r = call(sf.get_semantic_robust_alphabet)
    if r[0] != "ok":
        return Fail("alphabet:raised", got=r)
    alpha = r[1]
    if not isinstance(alpha, (set, frozenset)):
        return Fail("alphabet:not_a_set", type=type(alpha).__name__)
    want = R.expected_alphabet(table)
    missing = want - set(alpha)
    if missing:
        return Fail("alphabet:missing_members", missing=sorted(missing)[:10], table=_short(table))
    # every member decodes on its own, and is a symbol of the grammar
    for sym in sorted(alpha):
        if not isinstance(sym, str):
            return Fail("alphabet:non_string_member", member=repr(sym))
        if R.BRANCH.match(sym) or R.RING.match(sym) or sym in R.IDX:
            continue
        pa = R.parse_atom_symbol(sym, table)
        d = O.decode(sym)
        if d[0] != "ok":
            return Fail("alphabet:member_undecodable", member=sym, table=_short(table), got=d)
        if pa is None:
            return Fail("alphabet:member_outside_grammar", member=sym, table=_short(table))
        b, atom, cap = pa
        if R.ORDER[b] > cap:
            return Fail("alphabet:member_exceeds_capacity", member=sym, capacity=cap)
    return None


def _short(table):
    return {k: v for k, v in table.items() if k not in R.DEFAULT or R.DEFAULT[k] != v}


def gen_case(ch):
    w = ch.weighted([(2, "invalid"), (10, "valid")])
    if w == "invalid":
        arg, klass = T.gen_candidate_invalid(ch)
        if isinstance(arg, dict) and any(not isinstance(k, str) for k in arg):
            return None  # not JSON-able: exercised in C12's state machine instead
        if not isinstance(arg, (dict, str)) and arg is not None and not isinstance(arg, (int, float, list)):
            return None
        return dict(kind="candidate_invalid", arg=arg, klass=klass, picks=[ch.int(0, 4000) for _ in range(36)])
    spec = T.gen_valid_table(ch)
    n = ch.int(0, 60)
    case = dict(kind="strings", table=spec, picks=[ch.int(0, 4000) for _ in range(n)])
    if ch.bool(40):
        case["prefer"] = G.gen_live(ch, T.table_dict(spec), max_len=60, frag_percent=0)
        case["prefer"] = [t for t in case["prefer"] if t != "."] or ["[C]"]
    if ch.bool(20):
        case["then"] = T.gen_valid_table(ch)
    return case


def shard(ctx):
    if ctx.shard == 0:
        # the shortest sequences over the alphabet: the empty one and every single member (the latter is part of the alphabet contract)
        for spec in ("default", "octet_rule", "hypervalent", {"?": 3, "C": 4, "Fe+3": 2}):
            ctx.check(dict(kind="strings", table=spec, picks=[]))
    ctx.drive("main", gen_case, ctx.n(1500, 25000), max_bytes=1200)
