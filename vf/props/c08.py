"""C08 - decoder is total: it returns or raises DecoderError, and always terminates."""
import os
import subprocess
import sys
import time

import selfies as sf

from vf import gen_text as GT
from vf import oracles as O
from vf import refderive as R
from vf import totality as TT
from vf.core import HERE, Fail, Result

ID = "C08"
LEVEL = "exploration"
EVAL_TIMEOUT = 400
RULE = ("arbitrary str: sequences over a ~190-fragment dictionary (valid symbols, near-misses, legacy symbols, lone brackets, "
        "dots, unicode digit/letter look-alikes, NUL, lone surrogates), mutated live strings, raw unicode text, "
        "size-parameterised templates (nesting towers to depth 3000, 4299/4300/4301-digit runs, 5000-symbol chains, "
        ">99 rings) x {compatible} x {attribute}, under one of three tables; thorough adds a coverage-guided atheris "
        "campaign over the same byte->str layer. Oracle: returns (str / (str, list)) or raises DecoderError within the "
        "watchdog; constraint table and robust alphabet unchanged by the call. non-trivial = input is not a well-formed "
        "string of grammar symbols, or the outcome is DecoderError; distinct = distinct (input, flags)")
ASSUMPTIONS = ["calls are made from a fresh thread with the default recursion limit (1000)",
               "watchdog %.0f s per call >= 1000x the measured cost of the generated sizes; 'no result' is reported as a "
               "violation of 'terminates'" % TT.WATCHDOG_S,
               "warnings are silenced (compatible=True warns by design)"]
SELFTESTS = [R.selftest]

TABLES = ["default", "octet_rule", {"?": 3, "C": 4, "Xe-2": 6, "O": 0, "S": 9}]


def evaluate(case):
    s = case["s"]
    if case.get("tower"):
        s = GT.deep_tower(case["tower"], case.get("centre", "[C]")) + s
    compatible = bool(case.get("compatible"))
    attribute = bool(case.get("attribute"))
    spec = TABLES[case.get("table", 0)]
    table = O.use_table(spec)
    before_alpha = set(sf.get_semantic_robust_alphabet())
    r = TT.run_call(lambda: sf.decoder(s, compatible=compatible, attribute=attribute), (sf.DecoderError,))
    after = sf.get_semantic_constraints()
    after_alpha = set(sf.get_semantic_robust_alphabet())
    sample = dict(s=(s if len(s) <= 160 else s[:100] + "...(%d chars)" % len(s)), compatible=compatible, attribute=attribute)
    classes = []
    fail = None
    wellformed = True
    depth = 0
    try:
        rm = R.derive(s, table)
        depth = rm.max_depth
    except R.Reject:
        rm = None
    except (R.OutsideDomain, Exception):  # noqa - arbitrary text
        rm = None
        wellformed = False
    if r[0] == "hang":
        fail = Fail("no_result_within_watchdog", s=sample["s"], flags=(compatible, attribute))
    elif r[0] == "exc":
        sig = r[1]
        if "RecursionError" in sig:
            deep = depth >= 900 if wellformed and rm is not None else s.count("Branch") >= 900
            sig += ":live-nesting>=900" if deep else ":shallow"
        elif "ValueError" in sig and _longest_digit_run(s) > 4300:
            sig += ":digits>4300"
        fail = Fail(sig, s=sample["s"], flags=(compatible, attribute), error=r[2])
    elif r[0] == "ok":
        v = r[1]
        if attribute:
            ok = isinstance(v, tuple) and len(v) == 2 and isinstance(v[0], str) and isinstance(v[1], list)
        else:
            ok = isinstance(v, str)
        if not ok:
            fail = Fail("return_type", got=type(v).__name__, flags=(compatible, attribute))
        classes.append("returned")
    else:
        classes.append("DecoderError")
    if fail is None and (after != table or after_alpha != before_alpha):
        fail = Fail("state_changed", s=sample["s"], before=table, after=after)
        O.forget_table()
    if compatible:
        classes.append("compatible")
    if attribute:
        classes.append("attribute")
    if not wellformed:
        classes.append("not_wellformed")
    if depth >= 100:
        classes.append("nesting>=100")
    if depth >= 900:
        classes.append("nesting>=900")
    if len(s) >= 5000:
        classes.append("len>=5000")
    if any(ord(c) > 127 for c in s[:2000]):
        classes.append("non_ascii")
    nontrivial = (not wellformed) or rm is None or r[0] == "err"
    return Result(fail, nontrivial, classes, sample=sample)


def _longest_digit_run(s):
    best = cur = 0
    for c in s:
        if c.isdigit():
            cur += 1
            if cur > best:
                best = cur
        else:
            cur = 0
    return best


def gen_case(ch):
    return dict(s=GT.gen_selfies_text(ch), compatible=ch.bool(30), attribute=ch.bool(30), table=ch.weighted([(6, 0), (1, 1), (2, 2)]))


def flags_case(bits):
    return dict(compatible=bool(bits & 1), attribute=bool(bits & 2))


def gen_tower(ch):
    d = ch.weighted([(2, ch.int(100, 800)), (3, ch.int(800, 1200)), (1, ch.int(1200, 3000))])
    return dict(s=ch.pick(["", "[C]", "[Xx]", "[C][Ring1][C]"]), tower=d, centre=ch.pick(["[C]", "[S]", "[P]", "[N]"]),
                compatible=ch.bool(20), attribute=ch.bool(20), table=0)


def shard(ctx):
    ctx.eval_timeout = EVAL_TIMEOUT
    ctx.drive("main", gen_case, ctx.n(2500, 40000), max_bytes=900)
    ctx.drive("towers", gen_tower, ctx.n(12, 120), max_bytes=64)
    # a ladder of nesting depths below the known limit, split over the shards
    for j, d in enumerate(range(100, 900, 50 if ctx.tier == "quick" else 10)):
        if j % ctx.nshards == ctx.shard:
            ctx.check(dict(s="", tower=d, centre="[C]", table=0))
    if ctx.tier == "thorough":
        fuzz(ctx, "c08_target", runs=40000)


def fuzz(ctx, target, runs):
    """coverage-guided sub-tier: one atheris process per shard, fresh corpus dir, findings come back as files"""
    work = os.path.join(HERE, ".work", ID if target.startswith("c08") else "C09", "fuzz-%d" % ctx.shard)
    subprocess.run(["rm", "-rf", work])
    os.makedirs(os.path.join(work, "corpus"), exist_ok=True)
    os.makedirs(os.path.join(work, "findings"), exist_ok=True)
    seeded = ctx.shard % 2 == 1
    if seeded:
        seeds = ["[C][=C][F]", "[C][C][C][Ring1][Ring1]", "[S][=Branch1][C][=O][=Branch1][C][=O][O]", "[C@@H1][Branch1][C][F][Cl].[Na+1]",
                 "[C][Expl=Ring1][C]", "[Branch1_2][nop][epsilon]"]
        for i, s in enumerate(seeds):
            with open(os.path.join(work, "corpus", "seed%d" % i), "wb") as f:
                f.write(s.encode())
    env = dict(os.environ, VF_FUZZ_OUT=os.path.join(work, "findings"), VF_FUZZ_KNOWN="\n".join(ctx.known_sigs),
               VF_FUZZ_PROP=target[:3])
    cmd = [sys.executable, "-m", "vf.fuzz.c08_target", os.path.join(work, "corpus"), "-runs=%d" % runs,
           "-seed=%d" % (ctx.seed * 1000 + ctx.shard + 1), "-max_len=600", "-timeout=%d" % int(TT.WATCHDOG_S), "-verbosity=0",
           "-artifact_prefix=" + os.path.join(work, "findings") + "/"]
    t0 = time.time()
    try:
        p = subprocess.run(cmd, env=env, stdout=subprocess.PIPE, stderr=subprocess.STDOUT, timeout=3000)
        out = p.stdout.decode("utf-8", "replace")
    except subprocess.TimeoutExpired:
        ctx.acc.notes["fuzz_campaign_time_budget_hit(inconclusive)"] += 1
        return
    except FileNotFoundError:
        ctx.acc.notes["fuzz_skipped"] += 1
        return
    if "No module named 'atheris'" in out or "ModuleNotFoundError" in out:
        ctx.acc.notes["fuzz_skipped_atheris_missing"] += 1
        return
    import json
    stats = os.path.join(work, "findings", "stats.json")
    if os.path.exists(stats):
        with open(stats) as f:
            st = json.load(f)
        ctx.acc.notes["fuzz_executions"] += st.get("runs", 0)
        ctx.acc.notes["fuzz_excluded_known"] += st.get("excluded", 0)
        ctx.acc.notes["fuzz_campaign_%s_corpus" % ("seeded" if seeded else "empty")] += 1
    for fn in sorted(os.listdir(os.path.join(work, "findings"))):
        if fn.startswith("case-") and fn.endswith(".json"):
            with open(os.path.join(work, "findings", fn)) as f:
                case = json.load(f)
            ctx.check(case)
    ctx.acc.notes["fuzz_wall_s"] += int(time.time() - t0)
