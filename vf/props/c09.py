"""C09 - encoder is total: it returns or raises EncoderError, and always terminates."""
import selfies as sf

from vf import gen_text as GT
from vf import oracles as O
from vf import totality as TT
from vf.core import Fail, Result
from vf.props import c08 as _c08

ID = "C09"
LEVEL = "exploration"
EVAL_TIMEOUT = 400
RULE = ("arbitrary str: sequences over a ~230-fragment SMILES-flavoured dictionary (atoms, brackets, ring labels incl. %nn, "
        "self/duplicate/mismatched closures, aromatic bond symbols on non-aromatic atoms, unsupported features, unicode "
        "digit/letter look-alikes, NUL), mutated corpus SMILES, raw unicode text, size-parameterised templates (nested "
        "parentheses to depth 3000, 4299/4300/4301-digit runs, 4000-atom chains, 99 open rings) x {strict} x {attribute}; "
        "thorough adds a coverage-guided atheris campaign over the same byte->str layer. Oracle: returns (str / (str, list)) "
        "or raises EncoderError within the watchdog. non-trivial = the outcome is EncoderError or the input contains a ring "
        "closure/branch/bracket atom; distinct = distinct (input, flags)")
ASSUMPTIONS = _c08.ASSUMPTIONS[:2]
SELFTESTS = []

TABLES = _c08.TABLES


def paren_depth(s):
    d = best = 0
    for c in s:
        if c == "(":
            d += 1
            if d > best:
                best = d
        elif c == ")":
            d -= 1
    return best


def evaluate(case):
    s = case["s"]
    if case.get("nest"):
        d = case["nest"]
        s = "S" + "(S" * d + "F" + ")F" * d + s
    strict = bool(case.get("strict", True))
    attribute = bool(case.get("attribute"))
    O.use_table(TABLES[case.get("table", 0)])
    r = TT.run_call(lambda: sf.encoder(s, strict=strict, attribute=attribute), (sf.EncoderError,))
    sample = dict(s=(s if len(s) <= 160 else s[:100] + "...(%d chars)" % len(s)), strict=strict, attribute=attribute)
    classes = []
    fail = None
    if r[0] == "hang":
        fail = Fail("no_result_within_watchdog", s=sample["s"], flags=(strict, attribute))
    elif r[0] == "exc":
        sig = r[1]
        if "RecursionError" in sig:
            sig += ":paren-depth>=900" if paren_depth(s) >= 900 else ":shallow"
        elif "ValueError" in sig and _c08._longest_digit_run(s) > 4300:
            sig += ":digits>4300"
        fail = Fail(sig, s=sample["s"], flags=(strict, attribute), error=r[2])
    elif r[0] == "ok":
        v = r[1]
        if attribute:
            ok = isinstance(v, tuple) and len(v) == 2 and isinstance(v[0], str) and isinstance(v[1], list)
        else:
            ok = isinstance(v, str)
        if not ok:
            fail = Fail("return_type", got=type(v).__name__, flags=(strict, attribute))
        classes.append("returned")
    else:
        classes.append("EncoderError")
    if strict:
        classes.append("strict")
    if attribute:
        classes.append("attribute")
    pd = paren_depth(s)
    if pd >= 100:
        classes.append("paren_depth>=100")
    if pd >= 900:
        classes.append("paren_depth>=900")
    if len(s) >= 4000:
        classes.append("len>=4000")
    if any(ord(c) > 127 for c in s[:2000]):
        classes.append("non_ascii")
    nontrivial = r[0] == "err" or any(c in s for c in "[(%123456789")
    return Result(fail, nontrivial, classes, sample=sample)


def flags_case(bits):
    return dict(strict=bool(bits & 1), attribute=bool(bits & 2))


def gen_case(ch):
    return dict(s=GT.gen_smiles_text(ch), strict=ch.bool(60), attribute=ch.bool(30), table=ch.weighted([(6, 0), (1, 1), (2, 2)]))


def gen_nest(ch):
    d = ch.weighted([(2, ch.int(100, 800)), (3, ch.int(800, 1200)), (1, ch.int(1200, 3000))])
    return dict(s=ch.pick(["", "C", "(", "C1CC1"]), nest=d, strict=ch.bool(50), attribute=ch.bool(20), table=0)


def shard(ctx):
    ctx.drive("main", gen_case, ctx.n(2500, 40000), max_bytes=700)
    ctx.drive("nesting", gen_nest, ctx.n(12, 120), max_bytes=64)
    # a ladder of nesting depths below the known limit, split over the shards
    for j, d in enumerate(range(100, 900, 50 if ctx.tier == "quick" else 10)):
        if j % ctx.nshards == ctx.shard:
            ctx.check(dict(s="C", nest=d, strict=True, attribute=False, table=0))
    if ctx.tier == "thorough":
        _c08.fuzz(ctx, "c09_target", runs=40000)
