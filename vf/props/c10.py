"""C10 - encoder output is always decodable, standardised and stable under re-encoding."""
import re

from vf import gen_mol as GM
from vf import oracles as O
from vf import refsmiles
from vf import roundtrip as RTM
from vf.core import Chooser, Fail, Result

ID = "C10"
LEVEL = "exploration"
RULE = ("molecules and spellings as in C03 with emphasis on the atom-symbol space (isotopes incl. 0 / leading zeros / 3 digits, "
        "charges of magnitude 1-12, H 0-9, any element, stereo prefixes) and on ring distances / branch lengths needing 1, 2, 3 "
        "index symbols; every molecule is written twice with identical structural choices and independently drawn atom "
        "spellings ([N+]/[N+1], [CH]/[CH1], [Fe++]/[Fe+2], [013C]/[13C], [C+0]/[CH0], atom class present/absent). Oracle: "
        "e = encoder(s, strict=True) is well formed, decoder(e) under the same table does not raise, both spellings give the "
        "identical string, encoder(decoder(e)) == e. non-trivial = e has an index of >= 2 symbols or the two spellings differ "
        "as text; distinct = distinct (table, SMILES pair)")
ASSUMPTIONS = ["the two spellings differ only in how atoms are spelled (same structural choice stream)",
               "spellings that differ in ring labels / explicit '-' / %nn are compared through the molecule only (C03)"]
SELFTESTS = [refsmiles.selftest, GM.selftest]
WELL_FORMED = re.compile(r"^(\[[^\[\].]*\])(\.?\[[^\[\].]*\])*$")


def evaluate_text(case):
    """SMILES-like text without ground truth (dictionary fragments, mutated corpus entries, spellings with redundant or odd
    constructs): whatever the encoder accepts must be well formed, decodable and a fixpoint of encoder o decoder"""
    if O.use_table(case["table"]) is None:
        return Result(skipped="table not accepted by the library")
    s = case["smiles"]
    sample = dict(smiles=s[:160])
    r = O.encode(s, strict=True)
    if r[0] == "exc":
        return Result(skipped="encoder raises another exception (C09's business)", sample=sample)
    if r[0] == "err":
        return Result(skipped="encoder does not accept", classes=("text_rejected",), sample=sample)
    e = r[1]
    sample["selfies"] = str(e)[:200]
    classes = ["text_accepted"]
    if not isinstance(e, str) or WELL_FORMED.fullmatch(e) is None:
        if e == "":
            return Result(skipped="empty translation", sample=sample)
        return Result(Fail("malformed_selfies", smiles=s[:300], selfies=str(e)[:300]), False, classes, sample=sample)
    d = O.decode(e)
    if d[0] != "ok":
        return Result(Fail("decode_of_encoder_output_failed", smiles=s[:300], selfies=e[:300], got=d, table=case["table"]), True, classes, sample=sample)
    r3 = O.encode(d[1], strict=True)
    fail = None
    if r3[0] != "ok":
        fail = Fail("reencode_rejected", smiles=s[:300], out=d[1][:300], got=r3, table=case["table"])
    elif r3[1] != e:
        a, b = _first_diff(e, r3[1])
        fail = Fail("reencode_differs:text", smiles=s[:300], out=d[1][:300], first=a, second=b, table=case["table"])
    else:
        classes.append("reencoded")
    return Result(fail, len(e) > 12, classes, sample=sample)


def gen_text(ch):
    from vf import gen_text as GT
    s = GT.gen_smiles_text(ch)
    if len(s) > 800:        # keeps every branch / ring span below 16^3 symbols (<= 5 symbols per character)
        s = s[:800]
    return dict(kind="text", table=ch.pick(["default", "hypervalent", {"?": 8}]), smiles=s)


def evaluate(case):
    if case.get("kind") == "text":
        return evaluate_text(case)
    rt = RTM.roundtrip(case)
    sample = dict(smiles=case["smiles"][:160])
    if rt.skipped:
        return Result(skipped=rt.skipped, sample=sample)
    classes = RTM.classes_of(case, rt)
    fail = rt.fail
    e = rt.selfies
    nontrivial = False
    if fail is None:
        sample["selfies"] = e[:200]
        if not isinstance(e, str) or WELL_FORMED.fullmatch(e) is None:
            fail = Fail("malformed_selfies", smiles=case["smiles"][:300], selfies=str(e)[:300])
    if fail is None:
        nontrivial = bool(re.search(r"(Ring|Branch)[23]\]", e))
        alt = case.get("alt")
        if alt:
            r2 = O.encode(alt, strict=True)
            if alt != case["smiles"]:
                nontrivial = True
                classes.append("variant_spelling_differs")
            if r2[0] != "ok":
                fail = Fail("variant_rejected", smiles=case["smiles"][:300], alt=alt[:300], got=r2)
            elif r2[1] != e:
                a, b = _first_diff(e, r2[1])
                fail = Fail("variant_not_standardised", smiles=case["smiles"][:300], alt=alt[:300], symbol_a=a, symbol_b=b)
    if fail is None:
        r3 = O.encode(rt.smiles_out, strict=True)
        if r3[0] != "ok":
            fail = Fail("reencode_rejected", smiles=case["smiles"][:300], out=rt.smiles_out[:300], got=r3)
        elif r3[1] != e:
            a, b = _first_diff(e, r3[1])
            q = "ring_digit_after_branch" if refsmiles.read(case["smiles"]).digit_after_branch else "standard_digit_placement"
            fail = Fail("reencode_differs:" + q, smiles=case["smiles"][:300], out=rt.smiles_out[:300], first=a, second=b)
        else:
            classes.append("reencoded")
    if fail is not None:
        fail.details.setdefault("table", case["table"])
    return Result(fail, nontrivial, classes, sample=sample)


def _first_diff(a, b):
    ta = re.findall(r"\[[^\]]*\]|\.", a)
    tb = re.findall(r"\[[^\]]*\]|\.", b)
    for x, y in zip(ta, tb):
        if x != y:
            return x, y
    return "len=%d" % len(ta), "len=%d" % len(tb)


def gen_case(ch):
    # the structural stream is consumed from a copy so that both spellings make identical structural choices
    m = GM.gen_molecule(ch, max_atoms=ch.weighted([(6, 12), (2, 30)]), stereo=25, brackets=75, aromatic=10)
    rest = ch.b[ch.i:]
    n = len(rest) // 3
    struct, a1, a2 = rest[:n], rest[n:2 * n], rest[2 * n:]
    w1 = GM.write(m, Chooser(struct), Chooser(a1))
    w2 = GM.write(m, Chooser(struct), Chooser(a2))
    if w1 is None or w2 is None:
        return None
    spec = RTM.table_for(Chooser(struct[::-1]), w1["truth"], "fit")
    return dict(table=spec, smiles=w1["smiles"], alt=w2["smiles"], truth=w1["truth"], source="generated")


def gen_long_index(ch):
    """ring distances and branch lengths around the 1/2/3 index-symbol boundaries"""
    n = ch.weighted([(3, ch.int(14, 18)), (3, ch.int(254, 258)), (1, ch.int(300, 700)), (1, 4094), (1, 4095)])
    kind = ch.pick(["ring", "branch", "both"])
    atom = ch.pick(["C", "C", "N", "[CH2]", "[13C]"])
    if kind == "ring":
        smi = "%s1%s1" % (atom, atom * (n + 1))
    elif kind == "branch":
        smi = "S(%s)(F)Cl" % (atom * (n + 1))
    else:
        smi = "S(%s)(F)%s1%s1" % (atom * (n + 1), atom, atom * (n + 1))
    truth = RTM.truth_from_reading(smi)
    return dict(table={"?": 8}, smiles=smi, truth=truth, source="template")


def gen_digit_placement(ch):
    """small ring-rich molecules around atoms that can carry 5-6 bonds, spelled with ring digits before, between and
    after the branches of an atom (accepted, although OpenSMILES puts ring bonds first)"""
    m = GM.gen_molecule(ch, max_atoms=10, stereo=60, brackets=5, aromatic=0, fragments=3, rings=8, hubs=True)
    w = GM.write(m, ch, digit_after_branch=45)
    if w is None:
        return None
    return dict(table=RTM.table_for(ch, w["truth"], "fit"), smiles=w["smiles"], truth=w["truth"], source="generated")


def shard(ctx):
    ctx.drive("main", gen_case, ctx.n(2500, 40000), max_bytes=1200)
    ctx.drive("long_index", gen_long_index, ctx.n(10, 60), max_bytes=64)
    ctx.drive("text", gen_text, ctx.n(1500, 25000), max_bytes=700)
    for j, (name, smi) in enumerate(RTM.long_index_ladder(ctx.tier)):
        if j % ctx.nshards == ctx.shard:
            ctx.check(dict(table={"?": 8}, smiles=smi, truth=RTM.truth_from_reading(smi), source="template"))
    # a ladder of nesting depths, split over the shards (a handful of generated cases would all be the smallest ones)
    ladder = [(d, a) for d in (150, 300, 450, 500, 540, 580, 620, 650, 670) for a in ("C", "S", "N")]
    for j, (d, a) in enumerate(ladder):
        if j % ctx.nshards == ctx.shard and (ctx.tier == "thorough" or a == "C" or d in (540, 670)):
            smi = a + "(C" * d + "F" + ")F" * d
            ctx.check(dict(table={"?": 8}, smiles=smi, truth=RTM.truth_from_reading(smi), source="template"))
    ctx.drive("plain", lambda ch: RTM.gen_case(ch, max_atoms=24, table_mode="fit"), ctx.n(1000, 15000), max_bytes=900)
    ctx.drive("digit_placement", gen_digit_placement, ctx.n(1500, 20000), max_bytes=500)
