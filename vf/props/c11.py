"""C11 - translation is a pure function of the input and the current constraint table."""
import json
import os
import subprocess
import sys

import selfies as sf
from hypothesis import strategies as st
from hypothesis.stateful import rule

from vf import gen_mol as GM
from vf import gen_selfies as G
from vf import gen_table as T
from vf import oracles as O
from vf import refderive as R
from vf import refsmiles
from vf import stateful as S
from vf.core import HERE, REPO, Chooser, Fail, HarnessError, call, h64, jdump
from vf.props import c12 as C12

ID = "C11"
LEVEL = "exploration"
RULE = ("Hypothesis rule-based state machine: set preset / custom table (from a per-run pool of 12 tables, or brand new), "
        "rejected updates, caller-side mutation of every returned or passed object and of attribution lists, decode / encode "
        "with any flags (incl. compatible=True on pre-v2 spellings, whose plain decoding must stay what a fresh interpreter gives), cache-filling bursts of up to 300 never-seen symbols. At every translation: decoder(x) must equal (a) "
        "the molecule R2 derives under the model's table and (b) the string a fresh interpreter (subprocess, other "
        "PYTHONHASHSEED, cold caches) returned for (table, x); encoder(s, strict=False) must equal what a fresh default-state "
        "interpreter returned for s whatever the table; repeated calls agree. quick: one subprocess per pool table; thorough: "
        "one per (table, input). non-trivial = history with >= 1 accepted table change, >= 1 rejected update or caller-side "
        "mutation and >= 1 cache-filling translation before a checked call; distinct = distinct history")
ASSUMPTIONS = ["the interpreter's recursion limit and switch interval are inputs of later translations (deep inputs raise RecursionError "
               "exactly when they exceed the limit): a library call that leaves them changed makes later results depend on the history",
               "fresh-interpreter answers are computed on pools of inputs fixed per run (subprocess cost); in-process the reference R2 "
               "covers every decoder call",
               "R2's three interpretation choices (see C02)"]
SELFTESTS = [R.selftest, refsmiles.selftest, GM.selftest]

SENSITIVE = ["[Xe-2][Branch1][C][F][Branch1][C][F][Branch1][C][F][Branch1][C][F][F]", "[C][#C][=N][#S][=P][O]", "[CH4][C]", "[C][CH3][C]",
             "[N+1][=C][Fe+3][#C][Cl][C]", "[S][=Branch1][C][=O][=Branch1][C][=O][O]", "[P][Branch1][C][F][Branch1][C][F][Branch1][C][F][Branch1][C][F][F]",
             "[Cl][Branch1][C][O][=O]", "[O-1][=C][O+1][=C][C-1]", "[C][C][C][Ring1][Ring1][=Ring1][Ring1]", "[B-1][Branch1][C][F][Branch1][C][F][Branch1][C][F][F]",
             "[=N][#N][=N+1][=O]", "[Fe][=Branch1][C][=O][#C][=O]", "[H][H]", "[NH1][=C][NH2+1][C@@H1][Branch1][C][F][Cl]", "[C][.][C]", "[C][Xx]", "[C][F][Xx]",
             # more than 99 ring bonds: ring-number reuse in the writer must not carry state from call to call
             "[C][C][C][Ring1][Ring1]" * 103, "[C][C][Ring1][C]" + "[C][C][C][Ring1][Ring1]" * 101 + "[C][Ring3][C][Ring1][=Branch1]",
             "[C][C][C][Ring1][Ring1]" * 3]

# pre-v2 spellings: decoder(x) must reject them (where reached) whatever compatible=True calls came before
# a call that fails after many branch symbols (and one that succeeds): what a call may not leave behind includes process-wide
# interpreter settings that later translations depend on - deeply nested inputs raise RecursionError exactly when they exceed the
# interpreter's recursion limit (known finding of C08/C09), so that limit is an input only the caller may change
DEEP_FAIL = "[C][Branch1][C][F]" * 400 + "[Xx]"
DEEP_OK = "[C][Branch1][C][F]" * 400 + "[O]"

LEGACY = ["[C][C@@Hexpl][Branch1_1][C][F][Cl]", "[Fe++expl][=N+expl][C]", "[C][C][C][Expl=Ring1][C]", "[C][Branch1_2][C][=O][O-expl]",
          "[C][F][Cexpl]", "[NHexpl][C][Expl#Ring1]", "[C][=N+expl][Branch1_3][C][#N][O]"]

_POOL = {}


def pools(seed, tier):
    key = (seed, tier)
    if key in _POOL:
        return _POOL[key]
    ch = Chooser(bytes((h64("c11/%d/%d" % (seed, i)) % 256) for i in range(6000)))
    tables = ["default", "octet_rule", "hypervalent"]
    while len(tables) < 12:
        t = T.gen_valid_table(ch, allow_preset_name=False)
        t[ch.pick(["Xe-2", "Fe+3", "C", "N+1", "S", "Cl"])] = ch.pick([0, 1, 2, 3, 5, 7])
        tables.append(t)
    selfies = list(SENSITIVE) + list(LEGACY) + [DEEP_FAIL, DEEP_OK]
    while len(selfies) < 60:
        t = tables[ch.below(len(tables))]
        toks = G.gen_live(ch, T.table_dict(t), max_len=25, unknown_percent=ch.pick([0, 0, 3]))
        s = "".join(toks)
        if s and s not in selfies:
            selfies.append(s)
    smiles = ["c1ccccc1", "C(=O)O", "[C@@H](F)(Cl)Br", "C1CC1", "F/C=C/F", "[nH]1cccc1", "O=S(=O)(O)O", "C[N+](C)(C)C", "[Fe+3]", "C#N.[Na+]",
              # accepted under some pool tables only: the strict outcome must follow the table in force
              "c1ccsec1", "O=C(O)c1ccsec1", "c1cc[se]c1", "c1cctec1", "c1ccasc1", "c1ccsic1", "Clc1ccccc1Br", "[Si](C)(C)Cl", "CSc1ccccc1",
              "CN(C)(C)(C)C", "O=Cl(=O)(=O)O", "FS(F)(F)(F)(F)F", "c1ccn(=O)cc1", "C[Xe-2](F)(F)(F)F", "O=P(O)(O)O"]
    corpus = G.corpus_smiles()
    while len(smiles) < 60:
        if ch.bool(50):
            s = corpus[ch.below(len(corpus))]
        else:
            m = GM.gen_molecule(ch, max_atoms=10)
            w = GM.write(m, ch)
            if w is None:
                continue
            s = w["smiles"]
        if s not in smiles:
            smiles.append(s)
    fresh_dec = []
    fresh_compat = []
    hs = 1 + h64("hs/%d" % seed) % 4000000000
    fresh_strict = []
    for k, t in enumerate(tables):
        out = _fresh(dict(table=t, decode_compatible=LEGACY, encode_strict=smiles), hs + 50 + k)
        fresh_compat.append(out["dec_compat"])
        fresh_strict.append(out["enc_strict"])
    if tier == "quick":
        for k, t in enumerate(tables):
            out = _fresh(dict(table=t, decode=selfies), hs + k)
            fresh_dec.append(out["dec"])
    else:
        for k, t in enumerate(tables):
            d = {}
            for j, x in enumerate(selfies):
                d.update(_fresh(dict(table=t, decode=[x]), hs + 100 * k + j)["dec"])
            fresh_dec.append(d)
    fresh_enc = _fresh(dict(table=None, encode=smiles), hs + 77)["enc"]
    # interpreters with other hash seeds must agree among themselves (iteration order of sets / dicts of strings)
    for extra in (1, 2, 3):
        other = _fresh(dict(table=None, encode=smiles), hs + 77 + 1000003 * extra)["enc"]
        for s_ in smiles:
            if other[s_] != fresh_enc[s_]:
                fresh_enc[s_] = ["interpreters_disagree", fresh_enc[s_], other[s_]]
    p = dict(tables=tables, selfies=selfies, smiles=smiles, fresh_dec=fresh_dec, fresh_enc=fresh_enc, fresh_compat=fresh_compat, fresh_strict=fresh_strict)
    _POOL[key] = p
    return p


def _fresh(query, hashseed):
    env = dict(os.environ, PYTHONHASHSEED=str(hashseed), PYTHONPATH="%s:%s" % (REPO, HERE))
    p = subprocess.run([sys.executable, "-m", "vf.fresh"], input=json.dumps(query).encode(), stdout=subprocess.PIPE,
                       stderr=subprocess.PIPE, env=env, timeout=600)
    if p.returncode != 0:
        raise HarnessError("fresh interpreter failed: " + p.stderr.decode()[-800:])
    out = json.loads(p.stdout.decode())
    if not out["file"].startswith(REPO):
        raise HarnessError("fresh interpreter imported selfies from " + out["file"])
    return out


class State(C12.State):
    def __init__(self):
        super().__init__()
        self.table_id = 0          # index into the pool, or None for a brand-new table
        self.seen = {}             # (table key, kind, input, flags) -> result, for 'repeated calls agree'
        self.filled = False
        self.changed = False
        self.disturbed = False
        self.pool = None


_CFG = dict(seed=1, tier="quick")


def new_state():
    O.forget_table()
    s = State()
    s.pool = pools(_CFG["seed"], _CFG["tier"])
    return s


recover = C12.recover
cleanup = C12.cleanup


def apply_step(state, step, info):
    before = (sys.getrecursionlimit(), sys.getswitchinterval())
    fail = _apply_step(state, step, info)
    after = (sys.getrecursionlimit(), sys.getswitchinterval())
    if fail is None and after != before:
        try:
            sys.setrecursionlimit(before[0])
            sys.setswitchinterval(before[1])
        except Exception:  # noqa
            pass
        return Fail("call_leaves_interpreter_settings_changed", step=jdump(step)[:300], before=list(before), after=list(after))
    return fail


def _apply_step(state, step, info):
    op = step["op"]
    pool = state.pool
    cl = info["classes"]
    if op == "set_pool":
        t = pool["tables"][step["i"]]
        arg = t if isinstance(t, str) else dict(t)
        r = call(sf.set_semantic_constraints, arg)
        if r[0] != "ok":
            return Fail("set:pool_table_rejected", table=str(t)[:200], got=str(r)[:200])
        state.table = T.table_dict(t)
        state.table_id = step["i"]
        state.passed = None if isinstance(t, str) else arg
        state.changed = True
        cl.add("table_change")
        return None
    if op == "set_new":
        arg = dict(step["table"])
        r = call(sf.set_semantic_constraints, arg)
        if r[0] != "ok":
            return None
        state.table = dict(step["table"])
        state.table_id = None
        state.passed = arg
        state.changed = True
        cl.add("table_change_brand_new")
        return None
    if op == "set_invalid":
        arg = C12._decode_arg(step["arg"])
        r = call(sf.set_semantic_constraints, arg, expected=(ValueError,))
        if r[0] == "ok" and C12._definitely_invalid(arg):
            try:
                recover(state)
            except Exception:  # noqa
                pass
            return Fail("set:invalid_accepted", arg=repr(arg)[:300])
        if r[0] == "ok":
            if isinstance(arg, dict):
                state.table = dict(arg)
                state.table_id = None
            elif isinstance(arg, str) and arg in R.PRESETS:
                state.table = dict(R.PRESETS[arg])
                state.table_id = None
        else:
            state.disturbed = True
            cl.add("rejected_update")
        return None
    if op == "mutate":
        what = step["what"]
        how = step["how"]
        if what == "table":
            C12._mutate_dict(sf.get_semantic_constraints(), how)
        elif what == "preset":
            C12._mutate_dict(sf.get_preset_constraints(step.get("name", "default")), how)
        elif what == "alphabet":
            C12._mutate_set(sf.get_semantic_robust_alphabet(), how)
        elif what == "passed" and state.passed is not None:
            C12._mutate_dict(state.passed, how)
        state.disturbed = True
        cl.add("caller_mutation")
        return None
    if op == "fill":
        base = step["base"]
        for k in range(step["n"]):
            O.decode("[%dC][=%dN][%dOH1]" % (base + k, base + k, base + k))
        for k in range(min(step["n"], 40)):
            O.encode("[%dCH3]C(=O)[%dO-]" % (base + k, base + k), strict=False)
        state.filled = True
        cl.add("cache_fill")
        return None
    if op == "decode":
        x = pool["selfies"][step["i"]]
        flags = dict(compatible=bool(step.get("compatible")), attribute=bool(step.get("attribute")))
        r = call(sf.decoder, x, expected=(sf.DecoderError,), **flags)
        if r[0] == "exc":
            return Fail("decode:" + r[1], selfies=x[:300])
        if r[0] == "ok" and flags["attribute"]:
            try:
                out, am = r[1]
                for a in am:      # caller-side mutation of the attribution objects
                    a.index = -7
                    if a.attribution:
                        a.attribution.clear()
                am.clear()
            except Exception:  # noqa
                return Fail("decode:return_shape", got=repr(r[1])[:200])
            got = ["ok", out]
        else:
            got = ["ok", r[1]] if r[0] == "ok" else ["err"]
        legacy = flags["compatible"] and ("expl" in x or "Expl" in x or "_" in x)
        info["nontrivial"] = info["nontrivial"] or (state.changed and state.disturbed and state.filled)
        cl.add("checked_decode")
        # (a) reference derivation under the model's table
        if not legacy:
            try:
                rm = R.derive(x, state.table)
            except R.Reject:
                rm = None
            if (got[0] == "err") != (rm is None):
                return Fail("decode:differs_from_reference:accept", selfies=x[:300], got=got, table=C12._short(state.table))
            if rm is not None:
                sm, f = O.read_output(got[1], rm)
                if f is None:
                    c = R.compare_with_smiles(rm, sm)
                    if c is not None:
                        f = O.label_over_99(got[1], rm, c[0]) or Fail("decode:differs_from_reference:" + c[0], selfies=x[:300], smiles=got[1][:200],
                                                                   table=C12._short(state.table))
                if f is not None:
                    return f
        # (b) the fresh interpreter's answer
        if legacy:
            cl.add("compatible_decode_of_legacy_string")
        elif "expl" in x or "Expl" in x or "_" in x:
            cl.add("plain_decode_of_legacy_string")
        if state.table_id is not None:
            want = (pool["fresh_compat"] if legacy else pool["fresh_dec"])[state.table_id].get(x)
            if want is not None and want != got:
                return Fail("decode:differs_from_fresh_interpreter", selfies=x[:300], fresh=want, got=got, table_id=state.table_id)
            cl.add("checked_against_fresh_interpreter")
        # (c) repeated calls agree
        key = (jdump(state.table), "d", x, legacy)
        if key in state.seen and state.seen[key] != got:
            return Fail("decode:repeated_call_differs", selfies=x[:300], first=state.seen[key], now=got)
        state.seen[key] = got
        return None
    if op == "encode":
        s = pool["smiles"][step["i"]]
        strict = bool(step.get("strict"))
        attribute = bool(step.get("attribute"))
        r = call(sf.encoder, s, strict=strict, attribute=attribute, expected=(sf.EncoderError,))
        if r[0] == "exc":
            return Fail("encode:" + r[1], smiles=s[:300])
        if r[0] == "ok" and attribute:
            try:
                e, am = r[1]
                for a in am:
                    a.token = "x"
                    if a.attribution:
                        a.attribution.clear()
            except Exception:  # noqa
                return Fail("encode:return_shape", got=repr(r[1])[:200])
            got = ["ok", e]
        else:
            got = ["ok", r[1]] if r[0] == "ok" else ["err"]
        want = pool["fresh_enc"][s]
        if want[0] == "interpreters_disagree":
            return Fail("encode:fresh_interpreters_with_different_hash_seeds_disagree", smiles=s[:300], one=want[1], other=want[2])
        info["nontrivial"] = info["nontrivial"] or (state.changed and state.disturbed and state.filled)
        cl.add("checked_encode")
        if strict:
            if got[0] == "ok" and got != want:
                return Fail("encode:strict_result_differs_from_fresh_interpreter", smiles=s[:300], fresh=want, got=got)
            if state.table_id is not None:
                ws = pool["fresh_strict"][state.table_id].get(s)
                if ws is not None and ws != got:
                    return Fail("encode:strict_outcome_differs_from_fresh_interpreter", smiles=s[:300], fresh=ws, got=got, table_id=state.table_id)
                cl.add("strict_encode_checked_against_fresh_interpreter")
        elif got != want:
            return Fail("encode:differs_from_fresh_interpreter", smiles=s[:300], fresh=want, got=got, table=C12._short(state.table))
        # the same call again (attribute flag or not) gives the same translation / the same rejection
        key = (jdump(state.table), "e", s, strict)
        if key in state.seen and state.seen[key] != got:
            return Fail("encode:repeated_call_differs", smiles=s[:300], first=state.seen[key], now=got, table=C12._short(state.table))
        state.seen[key] = got
        return None
    raise ValueError(op)


BLOB = st.binary(min_size=0, max_size=40)


class Machine(S.HistoryMachine):
    module = None

    @rule(i=st.integers(0, 11))
    def set_pool(self, i):
        self.do(dict(op="set_pool", i=i))

    @rule(blob=BLOB)
    def set_new(self, blob):
        self.do(dict(op="set_new", table=T.gen_valid_table(Chooser(blob), allow_preset_name=False)))

    @rule(blob=BLOB)
    def set_invalid(self, blob):
        arg, klass = T.gen_candidate_invalid(Chooser(blob))
        self.do(dict(op="set_invalid", arg=C12._encode_arg(arg), klass=klass))

    @rule(what=st.sampled_from(["table", "preset", "alphabet", "passed"]), how=st.integers(0, 3))
    def mutate(self, what, how):
        self.do(dict(op="mutate", what=what, how=how))

    @rule(base=st.integers(1000, 900000), n=st.sampled_from([5, 40, 300]))
    def fill(self, base, n):
        self.do(dict(op="fill", base=base, n=n))

    @rule(i=st.integers(0, 59), compatible=st.booleans(), attribute=st.booleans())
    def decode(self, i, compatible, attribute):
        self.do(dict(op="decode", i=i, compatible=compatible, attribute=attribute))

    @rule(i=st.integers(0, 59))
    def decode_sensitive(self, i):
        self.do(dict(op="decode", i=i % len(SENSITIVE)))

    @rule(i=st.integers(0, 59), compatible=st.booleans(), attribute=st.booleans())
    def decode_legacy(self, i, compatible, attribute):
        self.do(dict(op="decode", i=len(SENSITIVE) + i % len(LEGACY), compatible=compatible, attribute=attribute))

    @rule(which=st.integers(0, 1), attribute=st.booleans())
    def many_branches(self, which, attribute):
        self.do(dict(op="decode", i=len(SENSITIVE) + len(LEGACY) + which, attribute=attribute))   # fails / succeeds after 400 branch symbols

    @rule(i=st.integers(0, 59), strict=st.booleans(), attribute=st.booleans())
    def encode(self, i, strict, attribute):
        self.do(dict(op="encode", i=i, strict=strict, attribute=attribute))


def case_extra():
    return dict(seed=_CFG["seed"], tier=_CFG["tier"])


def evaluate(case):
    _CFG["seed"] = case.get("seed", _CFG["seed"])
    _CFG["tier"] = case.get("tier", _CFG["tier"])
    return S.replay_history(sys.modules[__name__], case)


def shard(ctx):
    _CFG["seed"] = ctx.seed
    _CFG["tier"] = ctx.tier
    Machine.module = sys.modules[__name__]
    pools(ctx.seed, ctx.tier)
    S.drive_machine(ctx, "machine", Machine, ctx.n(150, 1500), ctx.n(30, 50))
