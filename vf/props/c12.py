"""C12 - constraint configuration API: faithful set/get, atomic rejection, no aliasing."""
import copy

import selfies as sf
from hypothesis import strategies as st
from hypothesis.stateful import rule

from vf import gen_table as T
from vf import oracles as O
from vf import refderive as R
from vf import refsmiles
from vf import stateful as S
from vf.core import Chooser, Fail, call

ID = "C12"
LEVEL = "exploration"
RULE = ("Hypothesis rule-based state machine over set_semantic_constraints / get_semantic_constraints / get_preset_constraints "
        "/ get_semantic_robust_alphabet: valid presets and custom tables, the listed invalid classes (missing '?', malformed "
        "key strings, negative / non-integer capacity, unknown preset name, wrong argument type) and other junk (non-string "
        "keys), tables passed as dict subclasses (defaultdict, Counter, OrderedDict), caller-side mutation of every returned object and of the dict passed to the setter; after every step the table, "
        "the three presets, the alphabet and two probe decodes are compared with an in-memory model. "
        "non-trivial = a history with >= 1 accepted custom table, >= 1 rejected update and >= 1 caller-side mutation; "
        "distinct = distinct history")
ASSUMPTIONS = ["presets as documented in the docstring table of get_preset_constraints",
               "alphabet: must contain the members C07 lists and must equal the alphabet observed directly after the last accepted set",
               "bool capacities are accepted as ints by the library (isinstance(True, int)); the model follows whatever was accepted",
               "for invalid inputs outside the listed classes only 'state unchanged' is required, not the exception type"]
SELFTESTS = [R.selftest, refsmiles.selftest]

PROBES = ["[Xe-2][Branch1][C][F][Branch1][C][F][Branch1][C][F][Branch1][C][F][F]", "[C][#C][=N][#S][=P][O]", "[N+1][=C][Fe][#C][Cl][C]",
          "[Si][=Branch1][C][=O][#Os][=Ge+2][Na]"]


class State:
    def __init__(self):
        sf.set_semantic_constraints("default")
        self.table = dict(R.DEFAULT)
        self.alpha = set(sf.get_semantic_robust_alphabet())
        self.passed = None      # the dict object last passed to the setter


def new_state():
    O.forget_table()
    return State()


def recover(state):
    sf.set_semantic_constraints(dict(state.table))
    state.alpha = set(sf.get_semantic_robust_alphabet())


def cleanup(state):
    sf.set_semantic_constraints("default")
    O.forget_table()


def _invariants(state, where):
    g = call(sf.get_semantic_constraints)
    if g[0] != "ok" or not isinstance(g[1], dict) or g[1] != state.table or set(map(type, g[1].values())) - {int, bool}:
        return Fail("state:table_differs_from_model:" + where, got=str(g)[:300], model=_short(state.table))
    for name, want in R.PRESETS.items():
        p = call(sf.get_preset_constraints, name)
        if p != ("ok", want):
            return Fail("state:preset_changed:" + where, preset=name, got=str(p)[:300])
    a = call(sf.get_semantic_robust_alphabet)
    if a[0] != "ok":
        return Fail("state:alphabet_raised:" + where, got=str(a)[:200])
    if set(a[1]) != state.alpha:
        extra = sorted(map(str, set(a[1]) - state.alpha))[:5]
        missing = sorted(map(str, state.alpha - set(a[1])))[:5]
        if where.startswith("after_mutating_alphabet"):
            return Fail("alias:alphabet", extra=extra, missing=missing)
        return Fail("state:alphabet_changed:" + where, extra=extra, missing=missing)
    if not R.expected_alphabet(state.table) <= set(a[1]):
        return Fail("state:alphabet_misses_documented_members:" + where, missing=sorted(R.expected_alphabet(state.table) - set(a[1]))[:5])
    for x in PROBES:
        try:
            rm = R.derive(x, state.table)
        except R.Reject:
            rm = None
        d = O.decode(x)
        if d[0] == "exc":
            return Fail("state:probe_decode_crashed:" + where, probe=x, got=d)
        if (d[0] == "err") != (rm is None):
            return Fail("state:probe_decode_differs:" + where, probe=x, got=d, model=_short(state.table))
        if rm is not None:
            try:
                c = R.compare_with_smiles(rm, refsmiles.read(d[1]))
            except refsmiles.SmilesError as e:
                c = ("unreadable", e.kind, d[1])
            if c is not None:
                return Fail("state:probe_decode_differs:" + where, probe=x, smiles=d[1], what=c[0], model=_short(state.table))
    return None


def _definitely_invalid(arg):
    """judged from the argument itself (not from how it was generated): wrong type, unknown preset, missing '?',
    a key outside the documented forms, or a capacity that is not a non-negative int (bool is left undecided)"""
    if isinstance(arg, str):
        return arg not in R.PRESETS
    if not isinstance(arg, dict):
        return True
    if "?" not in arg:
        return True
    for k, v in arg.items():
        if not R.key_is_documented(k):
            return True
        if isinstance(v, bool):
            continue
        if not isinstance(v, int) or v < 0:
            return True
    return False


def _documented_keys(arg):
    return isinstance(arg, dict) and "?" in arg and all(R.key_is_documented(k) for k in arg)


def _short(table):
    return {k: v for k, v in table.items() if k not in R.DEFAULT or R.DEFAULT[k] != v}


def _mutate_dict(d, how):
    try:
        if how == 0:
            d["C"] = 1
            d["Zz"] = 9
        elif how == 1:
            d.clear()
        elif how == 2:
            d["?"] = 0
            d.pop("N", None)
        else:
            for k in list(d):
                d[k] = 0
    except Exception:  # noqa - an immutable mapping is fine too
        pass


def _mutate_set(s, how):
    try:
        if how == 0:
            s.add("[Zz]")
            s.update(["[=Uue]", "[#Q]"])
        elif how == 1:
            s.clear()
        elif how == 2:
            s.discard("[C]")
            s.discard("[Ring1]")
        else:
            s.add("[#Xe-2]")
    except Exception:  # noqa - a frozenset is fine too
        pass


def apply_step(state, step, info):
    op = step["op"]
    cl = info["classes"]
    if op == "set_preset":
        r = call(sf.set_semantic_constraints, step["name"])
        if r[0] != "ok":
            return Fail("set:preset_rejected", name=step["name"], got=str(r)[:200])
        state.table = dict(R.PRESETS[step["name"]])
        state.alpha = set(sf.get_semantic_robust_alphabet())
        state.passed = None
        cl.add("set_preset")
        return _invariants(state, "after_set_preset")
    if op == "set_default_arg":
        r = call(sf.set_semantic_constraints)
        if r[0] != "ok":
            return Fail("set:default_arg_rejected", got=str(r)[:200])
        state.table = dict(R.DEFAULT)
        state.alpha = set(sf.get_semantic_robust_alphabet())
        state.passed = None
        return _invariants(state, "after_set_default")
    if op == "set_custom":
        arg = dict(step["table"])
        kind = step.get("container", "dict")
        if kind == "defaultdict":
            import collections
            arg = collections.defaultdict(int, arg)
        elif kind == "defaultdict7":
            import collections
            arg = collections.defaultdict(lambda: 7, arg)
        elif kind == "Counter":
            import collections
            arg = collections.Counter(arg)
        elif kind == "OrderedDict":
            import collections
            arg = collections.OrderedDict(sorted(arg.items(), reverse=True))
        if kind != "dict":
            cl.add("table_passed_as_" + kind)
        r = call(sf.set_semantic_constraints, arg)
        if r[0] != "ok":
            if R.table_is_documented(step["table"]):
                return Fail("set:documented_table_rejected", table=_short(step["table"]), got=str(r)[:200])
            return _invariants(state, "after_rejected_custom")
        state.table = dict(step["table"])
        state.alpha = set(sf.get_semantic_robust_alphabet())
        state.passed = arg
        cl.add("set_custom")
        info["custom"] = True
        return _invariants(state, "after_set_custom")
    if op == "set_invalid":
        arg = _decode_arg(step["arg"])
        passed = copy.deepcopy(arg)
        r = call(sf.set_semantic_constraints, passed, expected=(ValueError,))
        klass = step["klass"]
        if r[0] == "ok":
            if _definitely_invalid(arg):
                try:
                    recover(state)      # put the model's table back before anything else is looked at
                except Exception:  # noqa
                    pass
                return Fail("set:invalid_accepted:" + klass, arg=repr(arg)[:300])
            # accepted after all (e.g. bool capacities): then it is the table in force
            if isinstance(arg, dict):
                state.table = dict(arg)
            elif isinstance(arg, str) and arg in R.PRESETS:
                state.table = dict(R.PRESETS[arg])
            else:
                return Fail("set:accepted_non_table", arg=repr(arg)[:200])
            state.alpha = set(sf.get_semantic_robust_alphabet())
            cl.add("candidate_invalid_accepted")
            return _invariants(state, "after_accepted_candidate")
        if r[0] == "exc" and klass not in ("nonstring_key", "odd_value"):
            return Fail("set:invalid_raises_other_than_ValueError:" + klass, arg=repr(arg)[:300], got=r[1])
        cl.add("rejected_" + klass)
        info["rejected"] = True
        f = _invariants(state, "after_rejected_" + klass)
        if f is not None:
            f.details["rejected_arg"] = repr(arg)[:300]
        return f
    if op == "get_and_mutate":
        g = call(sf.get_semantic_constraints)
        if g[0] != "ok" or g[1] != state.table:
            return Fail("get:differs_from_model", got=str(g)[:300], model=_short(state.table))
        _mutate_dict(g[1], step["how"])
        info["mutated"] = True
        cl.add("mutate_returned_table")
        return _invariants(state, "after_mutating_returned_table")
    if op == "preset_and_mutate":
        p = call(sf.get_preset_constraints, step["name"], expected=(ValueError,))
        if step["name"] not in R.PRESETS:
            if p[0] != "err":
                return Fail("preset:unknown_name_not_rejected", name=step["name"], got=str(p)[:200])
            return _invariants(state, "after_unknown_preset")
        if p != ("ok", R.PRESETS[step["name"]]):
            return Fail("preset:differs_from_documented", name=step["name"], got=str(p)[:300])
        _mutate_dict(p[1], step["how"])
        info["mutated"] = True
        cl.add("mutate_returned_preset")
        return _invariants(state, "after_mutating_returned_preset")
    if op == "alphabet_and_mutate":
        a = call(sf.get_semantic_robust_alphabet)
        if a[0] != "ok":
            return Fail("alphabet:raised", got=str(a)[:200])
        if set(a[1]) != state.alpha:
            return Fail("state:alphabet_changed:before_mutation", extra=sorted(map(str, set(a[1]) - state.alpha))[:5])
        _mutate_set(a[1], step["how"])
        info["mutated"] = True
        cl.add("mutate_returned_alphabet")
        return _invariants(state, "after_mutating_alphabet")
    if op == "mutate_passed":
        if state.passed is None:
            return None
        _mutate_dict(state.passed, step["how"])
        info["mutated"] = True
        cl.add("mutate_dict_passed_to_setter")
        return _invariants(state, "after_mutating_passed_dict")
    if op == "set_passed_again":
        # the very dict object passed earlier - possibly edited by the caller since - is passed again
        if state.passed is None:
            return None
        arg = state.passed
        snapshot = copy.deepcopy(arg)
        r = call(sf.set_semantic_constraints, arg, expected=(ValueError,))
        valid = R.table_is_documented(snapshot)
        if r[0] == "ok":
            if not valid and not _documented_keys(snapshot):
                return Fail("set:invalid_accepted:same_object_passed_again", arg=repr(snapshot)[:300])
            if not valid and any((not isinstance(v, int)) or isinstance(v, bool) or v < 0 for v in snapshot.values()):
                return Fail("set:invalid_accepted:same_object_passed_again", arg=repr(snapshot)[:300])
            state.table = dict(snapshot)
            state.alpha = set(sf.get_semantic_robust_alphabet())
            cl.add("same_object_passed_again_accepted")
            return _invariants(state, "after_set_same_object")
        if valid:
            return Fail("set:documented_table_rejected", table=_short(snapshot), got=str(r)[:200])
        cl.add("same_object_passed_again_rejected")
        info["rejected"] = True
        return _invariants(state, "after_rejected_same_object")
    if op == "decode_some":
        for x in step["strings"]:
            O.decode(x)
        return _invariants(state, "after_translations")
    raise ValueError(op)


def _encode_arg(arg):
    """JSON-able form of an arbitrary candidate argument"""
    if isinstance(arg, dict):
        return dict(kind="dict", items=[[_encode_key(k), _encode_val(v)] for k, v in arg.items()])
    if isinstance(arg, (str, int, float)) or arg is None:
        return dict(kind="plain", value=arg)
    if isinstance(arg, (list, tuple, set)):
        return dict(kind=type(arg).__name__, value=[str(x) for x in arg])
    return dict(kind="plain", value=str(arg))


def _encode_key(k):
    if isinstance(k, str):
        return dict(t="s", v=k)
    if isinstance(k, tuple):
        return dict(t="tuple", v=list(k))
    return dict(t=type(k).__name__, v=k)


def _encode_val(v):
    if isinstance(v, list):
        return dict(t="list", v=v)
    return dict(t=type(v).__name__, v=v)


def _decode_arg(enc):
    if enc["kind"] == "dict":
        out = {}
        for k, v in enc["items"]:
            kk = tuple(k["v"]) if k["t"] == "tuple" else (None if k["t"] == "NoneType" else k["v"])
            if k["t"] == "float":
                kk = float(k["v"])
            vv = v["v"]
            if v["t"] == "bool":
                vv = bool(vv)
            elif v["t"] == "float":
                vv = float(vv)
            out[kk] = vv
        return out
    if enc["kind"] == "list":
        return list(enc["value"])
    if enc["kind"] == "tuple":
        return tuple(enc["value"])
    if enc["kind"] == "set":
        return set(enc["value"])
    return enc["value"]


BLOB = st.binary(min_size=0, max_size=40)


class Machine(S.HistoryMachine):
    module = None

    @rule(name=st.sampled_from(T.PRESET_NAMES))
    def set_preset(self, name):
        self.do(dict(op="set_preset", name=name))

    @rule()
    def set_default_arg(self):
        self.do(dict(op="set_default_arg"))

    @rule(blob=BLOB)
    def set_custom(self, blob):
        ch = Chooser(blob)
        t = T.gen_valid_table(ch, allow_preset_name=False)
        self.do(dict(op="set_custom", table=t, container=ch.weighted([(6, "dict"), (1, "defaultdict"), (1, "defaultdict7"), (1, "Counter"), (1, "OrderedDict")])))

    @rule(blob=BLOB)
    def set_invalid(self, blob):
        ch = Chooser(blob)
        arg, klass = T.gen_candidate_invalid(ch)
        if ch.bool(15) and isinstance(arg, dict) and klass != "nonstring_key" and all(isinstance(k, str) for k in arg):
            arg[ch.pick(sorted(k for k in arg if isinstance(k, str)))] = ch.pick(T.ODD_VALUES)
            klass = "odd_value"     # may or may not still be invalid: only consistency of the state is asserted
        self.do(dict(op="set_invalid", arg=_encode_arg(arg), klass=klass))

    @rule(how=st.integers(0, 3))
    def get_and_mutate(self, how):
        self.do(dict(op="get_and_mutate", how=how))

    @rule(name=st.sampled_from(T.PRESET_NAMES + ["Default", "", "octet"]), how=st.integers(0, 3))
    def preset_and_mutate(self, name, how):
        self.do(dict(op="preset_and_mutate", name=name, how=how))

    @rule(how=st.integers(0, 3))
    def alphabet_and_mutate(self, how):
        self.do(dict(op="alphabet_and_mutate", how=how))

    @rule(how=st.integers(0, 3))
    def mutate_passed(self, how):
        self.do(dict(op="mutate_passed", how=how))

    @rule()
    def set_passed_again(self):
        self.do(dict(op="set_passed_again"))

    @rule(blob=BLOB)
    def decode_some(self, blob):
        ch = Chooser(blob)
        self.do(dict(op="decode_some", strings=[ch.pick(PROBES + ["[C][=C][F]", "[Fe+3][Branch1][C][O][=O]"]) for _ in range(ch.int(1, 3))]))

    def teardown(self):
        i = self.info
        i["nontrivial"] = bool(i.get("custom") and i.get("rejected") and i.get("mutated"))
        super().teardown()


def evaluate(case):
    import sys
    return S.replay_history(sys.modules[__name__], case)


def shard(ctx):
    import sys
    Machine.module = sys.modules[__name__]
    S.drive_machine(ctx, "machine", Machine, ctx.n(400, 5000), ctx.n(25, 40))
