"""C13 - [nop] padding is invisible to the decoder."""
import selfies as sf

from vf import gen_selfies as G
from vf import gen_table as T
from vf import oracles as O
from vf import refderive as R
from vf.core import Fail, Result, call

ID = "C13"
LEVEL = "exploration"
RULE = ("base strings from the state-aware generator (with unknown symbols and rejected strings included) and a drawn "
        "multiset of token-boundary positions biased to: directly after a live branch/ring symbol and between its index "
        "digits, inside branches, around dots, both ends; outcome (returned string or DecoderError class) of the "
        "decorated string must equal that of the base string and of the base with every [nop] deleted, plain and with "
        "compatible=True; plus the selfies_to_encoding(pad_to_len) -> encoding_to_selfies path (label and one-hot). "
        "non-trivial = a [nop] lands in an index position of a symbol that R2 says is applied, or inside a branch "
        "that derives >= 1 atom; distinct = distinct (table, base, positions)")
ASSUMPTIONS = ["error messages quote the input and are not compared, only the exception class",
               "R2 is used only to classify where insertions land"]
SELFTESTS = [R.selftest]


def decorate(toks, positions):
    out = []
    pos = sorted(positions)
    j = 0
    for i, t in enumerate(toks):
        while j < len(pos) and pos[j] <= i:
            out.append("[nop]")
            j += 1
        out.append(t)
    out += ["[nop]"] * (len(pos) - j)
    return out


def evaluate(case):
    spec = case["table"]
    table = O.use_table(spec)
    if table is None:
        return Result(skipped="table not accepted by the library")
    toks = case["toks"]
    base = "".join(toks)
    mode = case.get("mode", "insert")
    ref = O.dec_outcome(base)
    sample = dict(table=spec if isinstance(spec, str) else "custom", base=base[:150], mode=mode)
    if mode == "pad":
        syms = [t for t in toks]
        vocab = sorted(set(syms) | {"[nop]", "."})
        if case.get("rot"):
            r = case["rot"] % len(vocab)
            vocab = vocab[r:] + vocab[:r]
        stoi = {c: i for i, c in enumerate(vocab)}
        itos = {i: c for c, i in stoi.items()}
        pad = len(toks) + case.get("pad", 0)
        et = case.get("enc", "label")
        r = call(sf.selfies_to_encoding, base, stoi, pad, et)
        if r[0] != "ok":
            return Result(Fail("pad:encoding_raised", base=base[:300], got=r), sample=sample)
        r2 = call(sf.encoding_to_selfies, r[1], itos, et)
        if r2[0] != "ok":
            return Result(Fail("pad:decoding_raised", base=base[:300], got=r2), sample=sample)
        padded = r2[1]
        want = base + "[nop]" * max(0, pad - len(toks))
        if padded != want:
            return Result(Fail("pad:string", base=base[:300], padded=padded[-200:]), sample=sample)
        got = O.dec_outcome(padded)
        fail = None if got == ref else Fail("pad:outcome", base=base[:300], padded=padded[-120:], want=ref, got=got)
        return Result(fail, pad > len(toks) and ref[0] == "ok", ("pad_" + et,), sample=sample)
    positions = case["positions"]
    dec = decorate(toks, positions)
    s2 = "".join(dec)
    sample["decorated"] = s2[:200]
    got = O.dec_outcome(s2)
    fail = None
    if got != ref:
        fail = Fail("nop:outcome", base=base[:300], decorated=s2[:400], want=ref, got=got, table=spec)
    if fail is None:
        stripped = "".join(t for t in toks if t != "[nop]")
        if stripped != base:
            g2 = O.dec_outcome(stripped)
            if g2 != ref:
                fail = Fail("nop:delete", base=base[:300], stripped=stripped[:300], want=ref, got=g2, table=spec)
    if fail is None and case.get("attr") and ref[0] == "ok":
        # with attribute=True the return value includes the attribution, whose input positions ignore [nop]
        def attributed(x):
            r = call(sf.decoder, x, attribute=True, expected=(sf.DecoderError,))
            if r[0] != "ok":
                return r[:2]
            try:
                return ("ok", r[1][0], [[a.index, a.token, [[q.index, q.token] for q in (a.attribution or [])]] for a in r[1][1]])
            except Exception:  # noqa
                return ("shape", repr(r[1])[:100])
        a = attributed(base)
        b = attributed(s2)
        if a != b:
            fail = Fail("nop:attributed_result_differs", base=base[:300], decorated=s2[:400], want=str(a)[:300], got=str(b)[:300])
    if fail is None and case.get("compat"):
        a = O.dec_outcome(base, compatible=True)
        b = O.dec_outcome(s2, compatible=True)
        if a != b:
            fail = Fail("nop:outcome_compatible", base=base[:300], decorated=s2[:400], want=a, got=b)
    # classification through R2
    classes = []
    nontrivial = False
    try:
        rm = R.derive(base, table)
    except (R.Reject, R.OutsideDomain):
        rm = None
        classes.append("base_rejected")
    if rm is not None:
        # global symbol position (ignoring nop and '.') of the token that follows each boundary
        gpos = []
        g = 0
        for t in toks:
            gpos.append(g)
            if t != "[nop]" and t != ".":
                g += 1
        gpos.append(g)
        inside = {o[0] for o in rm.origin if o[2]}
        for p in positions:
            q = gpos[min(p, len(toks))]
            if q in rm.index_pos:
                classes.append("nop_in_index_position")
                nontrivial = True
            if q in inside:
                classes.append("nop_inside_live_branch")
                nontrivial = True
        if any(p < len(toks) and toks[p] == "." or (p > 0 and toks[p - 1] == ".") for p in positions):
            classes.append("nop_next_to_dot")
    if case.get("compat"):
        classes.append("compatible_flag")
    if case.get("attr"):
        classes.append("attribute_flag")
    if len(positions) >= 900:
        classes.append("run_of_>=900_nops")
    return Result(fail, nontrivial, tuple(set(classes)), sample=sample)


def gen_case(ch):
    spec = T.gen_valid_table(ch) if ch.bool(40) else "default"
    table = T.table_dict(spec)
    toks = G.gen_live(ch, table, max_len=ch.weighted([(8, 40), (2, 120)]), unknown_percent=ch.weighted([(7, 0), (2, 3)]))
    if not toks:
        toks = ["[C]"]
    if ch.bool(12):
        return dict(table=spec, toks=[t for t in toks], mode="pad", pad=ch.int(-3, 8), enc=ch.pick(["label", "one_hot"]),
                    rot=ch.int(0, 5))
    hot = [i + 1 for i, t in enumerate(toks) if "Ring" in t or "Branch" in t]
    hot2 = [i + 2 for i, t in enumerate(toks) if ("Ring2" in t or "Branch2" in t or "Ring3" in t or "Branch3" in t) and i + 2 <= len(toks)]
    dots = [i for i, t in enumerate(toks) if t == "."]
    positions = []
    for _ in range(ch.int(1, 6)):
        w = ch.weighted([(5, "hot"), (2, "hot2"), (2, "dot"), (2, "end"), (4, "any")])
        if w == "hot" and hot:
            positions.append(ch.pick(hot))
        elif w == "hot2" and hot2:
            positions.append(ch.pick(hot2))
        elif w == "dot" and dots:
            d = ch.pick(dots)
            positions.append(d + ch.int(0, 1))
        elif w == "end":
            positions.append(ch.pick([0, len(toks)]))
        else:
            positions.append(ch.int(0, len(toks)))
    if ch.bool(3):
        # one long run of padding at a single position (samples padded to 1024 / 2048 / 4096)
        positions = [ch.pick(positions + [len(toks)])] * ch.pick([999, 1200, 2500, 4100])
    return dict(table=spec, toks=toks, positions=sorted(positions), compat=ch.bool(25), attr=ch.bool(30))


def shard(ctx):
    # degenerate bases (empty string, one symbol, one-symbol fragments) x every flag combination, enumerated
    small = [[], ["[C]"], ["[C]", ".", "[N]"], ["[F]", "[C]"], ["[C]", "[Ring1]"], ["[Na+1]", ".", "[Cl-1]", ".", "[O]"]]
    j = 0
    for toks in small:
        for positions in ([0], [0, 0], [len(toks)], list(range(len(toks) + 1)), [len(toks) // 2] * 3):
            for compat in (False, True):
                for attr in (False, True):
                    if j % ctx.nshards == ctx.shard:
                        ctx.check(dict(table="default", toks=list(toks), positions=sorted(positions), compat=compat, attr=attr))
                    j += 1
        for pad in (0, 1, 3):
            if j % ctx.nshards == ctx.shard:
                ctx.check(dict(table="default", toks=list(toks), mode="pad", pad=pad, enc="label", rot=0))
            j += 1
    ctx.drive("main", gen_case, ctx.n(2500, 40000), max_bytes=1500)
