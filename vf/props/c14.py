"""C14 - tokenisation utilities agree with each other and with the translators."""
import re

import selfies as sf

from vf import gen_selfies as G
from vf import oracles as O
from vf import refderive as R
from vf import refsmiles
from vf.core import Fail, Result, call

ID = "C14"
LEVEL = "exploration"
RULE = ("strings are built from generated token lists: symbols '[' + text + ']' with text from grammar symbols or arbitrary "
        "unicode text without '[', ']', '.' (empty text included), single dots only between two symbols; finite "
        "collections of such strings; the empty string; encoder outputs for corpus SMILES and generated spellings. "
        "Oracle: split_selfies == the token list, len_selfies == its length, get_alphabet_from_selfies == the set of "
        "bracket tokens, encoder outputs match the well-formedness grammar, and the decoder on the string equals the "
        "reference derivation run on the token list. non-trivial = >= 3 tokens with a dot or a non-grammar symbol text; "
        "distinct = distinct token lists / collections")
ASSUMPTIONS = ["the string is the concatenation of its generating tokens (construction is the ground truth)",
               "strings with leading/trailing/double dots or characters between symbols are outside the stated domain"]
SELFTESTS = [R.selftest, refsmiles.selftest]

WELL_FORMED = re.compile(r"^(\[[^\[\].]*\])(\.?\[[^\[\].]*\])*$")
TEXTS = ["", " ", "C ", " C", "c", "C1", "(", ")", "=", "#", "%10", "@", "C@@H", "nop ", "Nop", "NOP", "epsilo", "Ring", "ch",
         "ng", "Branch", "\t", "\n", "C\n", "é", "中", "́", "\U0001F600", "12", "-", "+", "C+", "H", "Expl=Ring1",
         "Branch1_1", "Cexpl", "x" * 40, "\\", "/", "'", '"', ",", "C,C", "Ring1 ", " Ring1", "0", "١", "Ⅷ", "²"]


def gen_symbol(ch):
    w = ch.weighted([(16, "grammar"), (6, "index"), (2, "text"), (1, "unicode"), (1, "unknown")])
    if w == "grammar":
        return G.gen_atom(ch, ["C", "N+1", "Fe"])
    if w == "index":
        return ch.pick(R.INDEX + ["[=Ring1]", "[#Branch2]", "[Ring3]", "[-/Ring2]", "[nop]", "[epsilon]"])
    if w == "text":
        return "[" + ch.pick(TEXTS) + "]"
    if w == "unicode":
        n = ch.int(0, 4)
        t = "".join(chr(ch.pick([ch.int(32, 126), ch.int(160, 0x2FF), ch.int(0x370, 0x3FF), ch.int(0x4E00, 0x4E40),
                                 ch.int(0x660, 0x669), ch.int(0xFF10, 0xFF19), ch.int(0x1F600, 0x1F610)])) for _ in range(n))
        t = t.replace("[", "").replace("]", "").replace(".", "")
        return "[" + t + "]"
    return ch.pick(G.UNKNOWN)


def gen_tokens(ch, max_len=30):
    n = ch.int(0, max_len)
    toks = []
    for _ in range(n):
        if toks and ch.exhausted():
            break
        if toks and toks[-1] != "." and ch.bool(8):
            toks.append(".")
        toks.append(gen_symbol(ch))
    while toks and toks[-1] == ".":
        toks.pop()
    return toks


def evaluate(case):
    kind = case["kind"]
    if kind == "tokens":
        toks = case["toks"]
        x = "".join(toks)
        nt = len(toks) >= 3 and ("." in toks or any(R.ATOM.match(t) is None and t not in R.IDX for t in toks if t != "."))
        cl = []
        r = call(lambda: list(sf.split_selfies(x)))
        if r != ("ok", toks):
            return Result(Fail("split", string=x[:300], want=toks[:40], got=str(r)[:400]), nt)
        r = call(sf.len_selfies, x)
        if r != ("ok", len(toks)):
            return Result(Fail("len", string=x[:300], want=len(toks), got=str(r)[:100]), nt)
        r = call(sf.get_alphabet_from_selfies, [x])
        want = set(toks) - {"."}
        if r != ("ok", want):
            return Result(Fail("alphabet", string=x[:300], want=sorted(want)[:30], got=str(r)[:400]), nt)
        if "." in toks:
            cl.append("has_dot")
        if not toks:
            cl.append("empty_string")
        if any(t == "[]" for t in toks):
            cl.append("empty_symbol")
        # the decoder consumes exactly these tokens
        if case.get("decode", True):
            table = O.use_table("default")
            frags = [[]]
            for t in toks:
                if t == ".":
                    frags.append([])
                else:
                    frags[-1].append(t)
            try:
                rm = R.derive(frags, table)
            except R.Reject:
                rm = None
            d = O.decode(x)
            if d[0] == "exc":
                return Result(Fail("decoder:" + d[1], string=x[:300]), nt)
            if (d[0] == "err") != (rm is None):
                return Result(Fail("decoder_tokens:accept_mismatch", string=x[:300], reference_rejects=rm is None), nt)
            if rm is not None:
                sm, f = O.read_output(d[1], rm)
                if f is None:
                    c = R.compare_with_smiles(rm, sm)
                    if c is not None:
                        f = Fail("decoder_tokens:molecule:" + c[0], string=x[:300], smiles=d[1][:200])
                if f is not None:
                    return Result(f, nt)
                cl.append("decoded")
            else:
                cl.append("rejected")
        return Result(None, nt, cl, sample=dict(string=x[:200], tokens=len(toks)))
    if kind == "collection":
        lists = case["lists"]
        xs = ["".join(t) for t in lists]
        want = set(t for l in lists for t in l) - {"."}
        r = call(sf.get_alphabet_from_selfies, xs)
        nt = len(xs) >= 2 and len(want) >= 3
        if r != ("ok", want):
            return Result(Fail("alphabet_collection", strings=[x[:80] for x in xs[:6]], want=sorted(want)[:30], got=str(r)[:400]), nt)
        r = call(sf.get_alphabet_from_selfies, iter(xs))   # any iterable
        if r != ("ok", want):
            return Result(Fail("alphabet_iterator", strings=[x[:80] for x in xs[:6]], got=str(r)[:400]), nt)
        return Result(None, nt, ("collection",), sample=dict(strings=[x[:60] for x in xs[:4]]))
    if kind == "encoder_output":
        smi = case["smiles"]
        O.use_table(case.get("table", "hypervalent"))
        r = O.encode(smi, strict=False)
        if r[0] != "ok":
            return Result(skipped="encoder does not accept")
        e = r[1]
        if e != "" and WELL_FORMED.fullmatch(e) is None:
            return Result(Fail("encoder_output_malformed", smiles=smi[:200], selfies=e[:300]), True)
        toks = call(lambda: list(sf.split_selfies(e)))
        if toks[0] != "ok" or "".join(toks[1]) != e or call(sf.len_selfies, e) != ("ok", len(toks[1])):
            return Result(Fail("encoder_output_tokens", smiles=smi[:200], selfies=e[:300]), True)
        return Result(None, len(toks[1]) >= 3, ("encoder_output",) + (("encoder_output_dot",) if "." in e else ()),
                      sample=dict(smiles=smi[:100], selfies=e[:150]))
    raise ValueError(kind)


def gen_case(ch):
    w = ch.weighted([(10, "tokens"), (3, "collection"), (3, "enc")])
    if w == "tokens":
        return dict(kind="tokens", toks=gen_tokens(ch))
    if w == "collection":
        return dict(kind="collection", lists=[gen_tokens(ch, 8) for _ in range(ch.int(0, 6))])
    smi = ch.pick(G.corpus_smiles())
    if ch.bool(30):
        smi = smi + "." + ch.pick(G.corpus_smiles())
    return dict(kind="encoder_output", smiles=smi)


def shard(ctx):
    if ctx.shard == 0:
        for toks in ([], ["[]"], ["[C]"], ["[C]", ".", "[C]"], ["[nop]"], ["[ ]", ".", "[]"]):
            ctx.check(dict(kind="tokens", toks=toks))
        ctx.check(dict(kind="collection", lists=[]))
        ctx.check(dict(kind="collection", lists=[[]]))
    ctx.drive("main", gen_case, ctx.n(2500, 40000), max_bytes=600)
    try:
        from vf import gen_mol
    except ImportError:
        return

    def gen_spelled(ch):
        m = gen_mol.gen_molecule(ch, max_atoms=14)
        smi = gen_mol.write(m, ch)["smiles"]
        return dict(kind="encoder_output", smiles=smi, table={"?": 12})
    ctx.drive("spelled", gen_spelled, ctx.n(500, 8000), max_bytes=600)

    def gen_text(ch):
        # SMILES-like text (fragment dictionary with doubled dots, empty branches, odd labels; mutated corpus entries):
        # whatever the encoder returns for it must be well formed as well
        from vf import gen_text as GT
        return dict(kind="encoder_output", smiles=GT.gen_smiles_text(ch)[:800], table=ch.pick(["default", "hypervalent", {"?": 12}]))
    ctx.drive("text", gen_text, ctx.n(1000, 15000), max_bytes=600)
