"""C15 - label / one-hot encodings are exact inverses of their decoders."""
import selfies as sf

from vf import gen_selfies as G
from vf.core import Fail, Result, call
from vf.refderive import INDEX

ID = "C15"
LEVEL = "exploration"
RULE = ("vocabulary = drawn bijection of 1-30 symbols (with/without '.', with/without [nop]) onto 0..n-1; strings over it (single "
        "dots only between symbols); pad length in -5..L+10; enc_type in valid and junk values; batches of 0-8 strings; failure "
        "clauses: a symbol missing from the vocabulary, padding needed without [nop], a flat vector whose length is not a "
        "multiple of n, bad enc_type. Oracle: a 15-line reference model (labels = indices of tokens + [nop] padding to "
        "max(L, pad); one-hot rows with a single 1; inverses return the padded string; batch = map); failure clauses must "
        "raise. non-trivial = padding applied or a '.' in the string or a failure clause; distinct = distinct case")
ASSUMPTIONS = ["rejection of rows with several 1s or of non-contiguous vocabularies is outside the documented contract and not asserted",
               "for the failure clauses any exception type counts as 'raises'"]
SELFTESTS = []

POOL = INDEX + ["[F]", "[Cl]", "[=O]", "[#N]", "[C@@H1]", "[N+1]", "[O-1]", "[Fe+3]", "[/C]", "[\\C]", "[Branch3]", "[=Ring2]",
                "[-/Ring1]", "[epsilon]", "[CH4]", "[13C]", "[Xx]", "[]", "[ ]", "[中]", "[Br]", "[I]", "[B]", "[=S]"]


def model_labels(toks, stoi, pad):
    toks = list(toks) + ["[nop]"] * max(0, pad - len(toks))
    return [stoi[t] for t in toks], toks


def one_hot(labels, n):
    rows = []
    for l in labels:
        r = [0] * n
        r[l] = 1
        rows.append(r)
    return rows


def evaluate(case):
    vocab = case["vocab"]
    # the dictionaries are built in a drawn insertion order: only the mapping matters, not the order of the keys
    order = case.get("insertion_order") or list(range(len(vocab)))
    if sorted(order) != list(range(len(vocab))):
        order = list(range(len(vocab)))
    stoi = {vocab[i]: i for i in order}
    itos = {i: vocab[i] for i in reversed(order)}
    n = len(vocab)
    kind = case["kind"]
    fails = []

    def expect_raise(what, r):
        if r[0] == "ok":
            fails.append(Fail("should_raise:" + what, case=kind, returned=str(r[1])[:200]))

    if kind == "single":
        toks = case["toks"]
        s = "".join(toks)
        pad = case["pad"]
        et = case["enc_type"]
        missing = [t for t in toks if t not in stoi]
        needs_pad = pad > len(toks)
        bad_type = et not in ("label", "one_hot", "both")
        r = call(sf.selfies_to_encoding, s, dict(stoi), pad, et)
        classes = ["enc_" + (et if not bad_type else "junk")]
        nt = needs_pad or "." in toks
        if bad_type:
            expect_raise("bad_enc_type", r)
            nt = True
        elif missing:
            expect_raise("missing_symbol", r)
            classes.append("missing_symbol")
            nt = True
        elif needs_pad and "[nop]" not in stoi:
            expect_raise("pad_without_nop", r)
            classes.append("pad_without_nop")
            nt = True
        else:
            labels, ptoks = model_labels(toks, stoi, pad)
            hot = one_hot(labels, n)
            want = {"label": labels, "one_hot": hot, "both": (labels, hot)}[et]
            if r[0] != "ok":
                fails.append(Fail("encode_raised", selfies=s[:200], pad=pad, enc_type=et, got=str(r)[:200]))
            elif r[1] != want:
                fails.append(Fail("encode_wrong", selfies=s[:200], pad=pad, enc_type=et, want=str(want)[:300], got=str(r[1])[:300]))
            else:
                if len(labels) != max(len(toks), pad if pad > 0 else 0) and len(labels) != max(len(toks), pad):
                    fails.append(Fail("length", want=max(len(toks), pad), got=len(labels)))
                for e2, enc in (("label", labels), ("one_hot", hot)):
                    back = call(sf.encoding_to_selfies, enc, dict(itos), e2)
                    if back != ("ok", "".join(ptoks)):
                        fails.append(Fail("decode_wrong:" + e2, selfies=s[:200], want="".join(ptoks)[:200], got=str(back)[:200]))
                if needs_pad:
                    classes.append("padded")
                # results are the caller's: editing a returned encoding in place must not change any later result
                if et != "label" and r[1] and case.get("edit_result"):
                    got_hot = r[1] if et == "one_hot" else r[1][1]
                    if got_hot and n > 0:
                        snapshot = [list(row) for row in got_hot]
                        row0 = got_hot[0]
                        i1 = row0.index(1)
                        row0[i1] = 0
                        row0[(i1 + 1) % n] = 1
                        if n > 1 and any(snapshot[k] != list(got_hot[k]) for k in range(1, len(got_hot))):
                            fails.append(Fail("result_rows_share_storage", selfies=s[:200], enc_type=et))
                        again = call(sf.selfies_to_encoding, s, dict(stoi), pad, et)
                        if again != ("ok", want):
                            fails.append(Fail("later_result_changed_by_editing_earlier_result", selfies=s[:200], enc_type=et,
                                              want=str(want)[:200], got=str(again)[:200]))
                        classes.append("caller_edits_returned_one_hot")
        if case.get("bad_dec_type") is not None:
            expect_raise("bad_enc_type_decoding", call(sf.encoding_to_selfies, [0], dict(itos), case["bad_dec_type"]))
        return Result(fails[0] if fails else None, nt, classes, sample=dict(selfies=s[:120], pad=pad, enc_type=et, vocab=n))
    if kind == "batch":
        lists = case["lists"]
        pad = case["pad"]
        strs = ["".join(t) for t in lists]
        missing = any(t not in stoi for l in lists for t in l)
        needs_pad = any(pad > len(l) for l in lists)
        r = call(sf.batch_selfies_to_flat_hot, strs, dict(stoi), pad)
        classes = ["batch"]
        nt = len(lists) >= 2
        if missing:
            expect_raise("batch_missing_symbol", r)
        elif needs_pad and "[nop]" not in stoi:
            expect_raise("batch_pad_without_nop", r)
        else:
            want = []
            padded = []
            for l in lists:
                labels, ptoks = model_labels(l, stoi, pad)
                want.append([x for row in one_hot(labels, n) for x in row])
                padded.append("".join(ptoks))
            if r != ("ok", want):
                fails.append(Fail("batch_encode_wrong", strings=[x[:60] for x in strs[:4]], pad=pad, got=str(r)[:300]))
            else:
                back = call(sf.batch_flat_hot_to_selfies, want, dict(itos))
                if back != ("ok", padded):
                    fails.append(Fail("batch_decode_wrong", want=[x[:60] for x in padded[:4]], got=str(back)[:300]))
                classes.append("batch_roundtrip")
        return Result(fails[0] if fails else None, nt, classes, sample=dict(strings=[x[:50] for x in strs[:3]], pad=pad, vocab=n))
    if kind == "ragged":
        L = case["L"]
        extra = case["extra"]
        vec = ([0] * n) * L + [0] * extra
        if vec and n > 0:
            for row in range(L):
                vec[row * n + (row % n)] = 1
        good = []
        for g in range(case.get("good_before", 0)):
            v = [0] * (n * (g + 1))
            for row in range(g + 1):
                v[row * n + (row % n)] = 1
            good.append(v)
        batch = good + [vec]
        r = call(sf.batch_flat_hot_to_selfies, batch, dict(itos))
        if extra % n != 0:
            expect_raise("ragged_vector_at_position_%s" % ("0" if not good else ">0"), r)
        else:
            want = ["".join(itos[row % n] for row in range(g + 1)) for g in range(len(good))] + ["".join(itos[row % n] for row in range(L))]
            if extra == 0 and r != ("ok", want):
                fails.append(Fail("batch_decode_wrong", want=want[:4], got=str(r)[:300]))
        return Result(fails[0] if fails else None, True, ("ragged", "ragged_after_%d_good" % len(good)), sample=dict(n=n, length=len(vec), good_before=len(good)))
    raise ValueError(kind)


def gen_vocab(ch):
    n = ch.int(1, 30)
    syms = ch.sample(POOL, min(n, len(POOL)))
    if ch.bool(70):
        syms.append("[nop]")
    if ch.bool(50):
        syms.append(".")
    return ch.shuffle(syms)


def gen_tokens(ch, vocab, max_len=20, foreign=0):
    syms = [s for s in vocab if s != "."] or ["[C]"]
    toks = []
    for _ in range(ch.int(0, max_len)):
        if toks and toks[-1] != "." and "." in vocab and ch.bool(10):
            toks.append(".")
        elif foreign and ch.bool(foreign):
            toks.append(ch.pick(["[Zz]", "[Q]", "[=Xe]"]))
        else:
            toks.append(ch.pick(syms))
    while toks and toks[-1] == ".":
        toks.pop()
    return toks


def gen_case(ch):
    c = _gen_case(ch)
    if ch.bool(60):
        c["insertion_order"] = ch.shuffle(list(range(len(c["vocab"]))))
    return c


def _gen_case(ch):
    vocab = gen_vocab(ch)
    w = ch.weighted([(10, "single"), (5, "batch"), (2, "ragged")])
    if w == "single":
        toks = gen_tokens(ch, vocab, foreign=ch.pick([0, 0, 0, 10]))
        if ch.bool(8) and "." not in vocab and len(toks) >= 2:
            toks.insert(1, ".")          # a dot without '.' in the vocabulary must raise
        pad = ch.int(-5, len(toks) + 10)
        et = ch.weighted([(4, "label"), (4, "one_hot"), (4, "both"), (1, "Label"), (1, ""), (1, "onehot")])
        c = dict(kind="single", vocab=vocab, toks=toks, pad=pad, enc_type=et, edit_result=ch.bool(50))
        if ch.bool(10):
            c["bad_dec_type"] = ch.pick(["both", "", "LABEL", "hot"])
        return c
    if w == "batch":
        lists = [gen_tokens(ch, vocab, 10, foreign=ch.pick([0, 0, 0, 0, 8])) for _ in range(ch.int(0, 8))]
        return dict(kind="batch", vocab=vocab, lists=lists, pad=ch.int(-3, 15))
    return dict(kind="ragged", vocab=vocab, L=ch.int(0, 5), extra=ch.int(0, 40), good_before=ch.int(0, 3))


def shard(ctx):
    ctx.drive("main", gen_case, ctx.n(2500, 40000), max_bytes=500)
