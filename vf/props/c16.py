"""C16 - index symbols form a base-16 positional code shared by encoder and decoder."""
import selfies as sf

from vf import refsmiles
from vf.core import Fail, Result, call
from vf.refderive import IDX, INDEX
from vf.refderive import selftest as _r2_selftest

ID = "C16"
LEVEL = "exploration"
RULE = ("function level: every n < 16^3 and every symbol triple over {16 index symbols, [F], [Xx], [nop], "
        "[epsilon], missing} (both finite sets enumerated completely, split over the shards), sampled n up to 16^4 + 70 000; "
        "API level: decoder on [C]*k+[RingL]+digits and [S][BranchL]+digits+atoms+[O], decoder with non-index/"
        "missing digit symbols, encoder on rings of span n+2 and branches of length n+1; expected digits come "
        "from own positional arithmetic over the table of docs/source/derivation.rst; function level also for n = 16^k + {-2,-1,0,1,...}, "
        "k up to 69 (199 in thorough), in a subprocess under a memory and a time limit (a limit hit is inconclusive). "
        "non-trivial = n >= 16 (more than one digit) or a triple containing a non-index/missing symbol; "
        "distinct = distinct (kind, n | triple)")
ASSUMPTIONS = ["the documented index table of docs/source/derivation.rst, in modern symbol names",
               "API-level ring/branch placement is read back with the independent SMILES reader R1",
               "API-level checks run under a permissive table (hypervalent, ?=12) so no valence clipping interferes"]
SELFTESTS = [refsmiles.selftest, _r2_selftest]

try:
    from selfies.grammar_rules import get_index_from_selfies as _from_sym, get_selfies_from_index as _to_sym
except Exception:  # renamed / moved: function-level sub-check is skipped, the API level still decides
    _from_sym = _to_sym = None

EXTRA = ["[F]", "[Xx]", "[nop]", "[epsilon]", None]
# symbols outside the sixteen that look like grammar symbols (other ring / branch symbols, pre-v2 names, atoms with bond prefixes)
NON_INDEX = ["[F]", "[Xx]", "[epsilon]", "[Cl]", "[=O]", "[Ring3]", "[Branch3]", "[=Ring1]", "[#N]", "[=S]", "[Branch1_1]", "[Branch2_3]",
             "[Expl=Ring1]", "[Cexpl]", "[CH1]", "[13C]"]
TRIPLE_SYMS = INDEX + EXTRA


def digits(n):
    d = []
    while True:
        d.append(INDEX[n % 16])
        n //= 16
        if n == 0:
            break
    return d[::-1]


def value(syms):
    v = 0
    for s in syms:
        v = v * 16 + IDX.get(s, 0)
    return v


_TABLE = dict(H=1, F=1, Cl=7, Br=7, I=7, B=3, O=2, N=5, C=4, P=5, S=6)
_TABLE["?"] = 12


def _set_table():
    if sf.get_semantic_constraints() != _TABLE:
        sf.set_semantic_constraints(dict(_TABLE))


def evaluate(case):
    kind = case["kind"]
    if kind == "fn_n":
        n = case["n"]
        if _to_sym is None:
            return Result(skipped="function-level API not importable")
        want = digits(n)
        r = call(_to_sym, n)
        if r[0] != "ok":
            return Result(Fail("fn:to_symbols_raised", n=n, got=r))
        got = list(r[1])
        nt = n >= 16
        if got != want:
            return Result(Fail("fn:digits", n=n, want=want, got=got), nt)
        if n < 4096 and len(got) > 3:
            return Result(Fail("fn:more_than_3", n=n, got=got), nt)
        r = call(_from_sym, *got)
        if r != ("ok", n):
            return Result(Fail("fn:roundtrip", n=n, got=r), nt)
        return Result(None, nt, ("fn_n",), key="n%d" % n)
    if kind == "fn_triple":
        if _from_sym is None:
            return Result(skipped="function-level API not importable")
        t = case["t"]
        want = value(t)
        r = call(_from_sym, *t)
        nt = any(s not in IDX for s in t)
        if r != ("ok", want):
            return Result(Fail("fn:triple_value", t=t, want=want, got=r), nt)
        return Result(None, nt, ("fn_triple",), key="t" + repr(t))
    if kind == "fn_big":
        return _fn_big(case)
    _set_table()
    if kind == "dec_ring":
        n = case["n"]
        d = digits(n)
        k = n + 2 + case.get("pad", 3)
        pre = case.get("pre", "")      # every spelling of a ring symbol carries len(d) index symbols: [=RingL], [#RingL], [-/RingL], ...
        s = "[C]" * k + "[%sRing%d]" % (pre, len(d)) + "".join(d)
        return _dec_ring(s, k, n, n >= 16, "dec_ring" + ("_prefixed" if pre else ""), "n%d%s" % (n, pre))
    if kind == "dec_ring_syms":
        syms = case["syms"]           # may be shorter than L: missing symbols at the end
        L = case["L"]
        n = value(list(syms) + [None] * (L - len(syms)))
        k = min(n, 300) + 2 + 3
        tail = [x for x in syms if x is not None]
        if len(tail) != len(syms):
            return Result(skipped="None inside")
        s = "[C]" * k + "[Ring%d]" % L + "".join(tail)
        # a non-index symbol that is consumed as a digit must not be derived as an atom
        return _dec_ring(s, k, n, True, "dec_ring_syms", repr((syms, L)))
    if kind == "dec_branch":
        n = case["n"]
        d = digits(n)
        extra = case.get("extra", 2)
        s = "[S][Branch%d]" % len(d) + "".join(d) + "[C]" * (n + 1) + "[O]" + "[C]" * extra
        r = call(sf.decoder, s, expected=(sf.DecoderError,))
        if r[0] != "ok":
            return Result(Fail("dec:branch_raised", n=n, got=r), n >= 16)
        m = refsmiles.read(r[1])
        # the branch has exactly n+1 carbons, the [O] is bonded to the sulfur (atom 0)
        ok = len(m.atoms) == n + 3 + extra and m.bonds.get((0, n + 2)) == 1 and m.atoms[n + 2]["el"] == "O" \
            and all(m.bonds.get((i, i + 1)) == 1 for i in range(0, n + 1))
        if not ok:
            return Result(Fail("dec:branch_length", n=n, smiles=r[1][:200]), n >= 16)
        return Result(None, n >= 16, ("dec_branch",), key="b%d" % n)
    if kind == "enc_ring":
        n = case["n"]
        d = digits(n)
        smi = "C1" + "C" * (n + 1) + "1"
        r = call(sf.encoder, smi, expected=(sf.EncoderError,))
        want = "[C]" * (n + 2) + "[Ring%d]" % len(d) + "".join(d)
        if r != ("ok", want):
            return Result(Fail("enc:ring_digits", n=n, want=want[-80:], got=str(r)[-120:]), n >= 16)
        return Result(None, n >= 16, ("enc_ring",), key="er%d" % n)
    if kind == "enc_branch":
        n = case["n"]
        d = digits(n)
        smi = "S(" + "C" * (n + 1) + ")O"
        r = call(sf.encoder, smi, expected=(sf.EncoderError,))
        want = "[S][Branch%d]" % len(d) + "".join(d) + "[C]" * (n + 1) + "[O]"
        if r != ("ok", want):
            return Result(Fail("enc:branch_digits", n=n, want=want[:80], got=str(r)[:120]), n >= 16)
        return Result(None, n >= 16, ("enc_branch",), key="eb%d" % n)
    raise ValueError(kind)


def _fn_big(case):
    """n around powers of 16 far beyond what ring / branch symbols can carry ('for every non-negative integer n'): run in a
    subprocess under a memory and a time limit; hitting a limit is inconclusive (counted), never a violation"""
    import json
    import os
    import subprocess
    import sys
    from vf.core import HERE, REPO, HarnessError
    if _to_sym is None:
        return Result(skipped="function-level API not importable")
    env = dict(os.environ, PYTHONPATH="%s:%s" % (REPO, HERE))
    try:
        p = subprocess.run([sys.executable, "-m", "vf.bign"], input=json.dumps(dict(ns=case["ns"])).encode(), stdout=subprocess.PIPE,
                           stderr=subprocess.PIPE, env=env, timeout=25)
    except subprocess.TimeoutExpired:
        return Result(skipped="large n: time limit reached (inconclusive)")
    if p.returncode != 0:
        return Result(skipped="large n: subprocess ended with status %d (memory limit?) (inconclusive)" % p.returncode)
    out = json.loads(p.stdout.decode())
    if not out["file"].startswith(REPO):
        raise HarnessError("subprocess imported selfies from " + out["file"])
    n_ok = 0
    for ns, syms, back, err in out["results"]:
        n = int(ns)
        if err == "MemoryError":
            return Result(skipped="large n: memory limit reached (inconclusive)", extra=n_ok)
        if err is not None:
            return Result(Fail("fn:to_symbols_raised:large_n", n=ns, error=err), True, extra=n_ok)
        want = digits(n)
        if syms != want:
            return Result(Fail("fn:digits:large_n", n=ns, want_len=len(want), got_len=len(syms), want_head=want[:4], got_head=syms[:4]), True, extra=n_ok)
        if back != ns:
            return Result(Fail("fn:roundtrip:large_n", n=ns, got=back), True, extra=n_ok)
        n_ok += 1
    return Result(None, True, ("fn_big",), key="big" + case["ns"][0], extra=n_ok)


def _dec_ring(s, k, n, nt, cls, key):
    r = call(sf.decoder, s, expected=(sf.DecoderError,))
    if r[0] != "ok":
        return Result(Fail("dec:ring_raised", n=n, got=r), nt)
    m = refsmiles.read(r[1])
    tgt = max(0, k - 1 - (n + 1))
    if len(m.atoms) != k:
        return Result(Fail("dec:ring_atom_count", n=n, k=k, atoms=len(m.atoms), selfies=s[-80:]), nt)
    if tgt == k - 2:
        ok = m.bonds.get((k - 2, k - 1)) == 2 and not m.ring_bonds
    else:
        ok = m.ring_bonds == {(tgt, k - 1)}
    if not ok:
        return Result(Fail("dec:ring_target", n=n, want=(tgt, k - 1), got=sorted(m.ring_bonds), selfies=s[-80:]), nt)
    return Result(None, nt, (cls,), key=key)


def shard(ctx):
    k, K = ctx.shard, ctx.nshards
    # finite function-level domains, completely enumerated (split over the shards)
    for n in range(k, 4096, K):
        ctx.check(dict(kind="fn_n", n=n))
    syms = TRIPLE_SYMS
    idx = 0
    for a in syms:
        for b in syms:
            for c in syms:
                if idx % K == k:
                    ctx.check(dict(kind="fn_triple", t=[a, b, c]))
                idx += 1
    for a in syms:
        for b in syms:
            if idx % K == k:
                ctx.check(dict(kind="fn_triple", t=[a, b]))
            idx += 1
    if _to_sym is not None:
        ctx.acc.exhaustive["fn_n"] = "all n in [0, 16^3): shortest documented digit string, round trip"
        ctx.acc.exhaustive["fn_triple"] = "all 21^3 + 21^2 symbol triples/pairs over 16 index symbols + 4 others + missing"
    else:
        ctx.acc.notes["function_level_skipped_not_importable"] += 1

    # very large n around powers of 16 (one subprocess per shard)
    ks = [k_ for k_ in range(4, 70 if ctx.tier == "quick" else 200) if k_ % K == k]
    if ks:
        big = []
        for k_ in ks:
            for d in (-2, -1, 0, 1, 16 ** (k_ - 1), -(16 ** (k_ - 1)) - 1):
                big.append(str(16 ** k_ + d))
            big.append(str(16 ** k_ * 7 + 5 * 16 ** (k_ // 2)))
        ctx.check(dict(kind="fn_big", ns=big))

    # API level
    if ctx.tier == "quick":
        ns = list(range(0, 300)) + [4094, 4095] + [255, 256, 257, 511, 512, 4000]
    else:
        ns = list(range(0, 4096))
    ns = [n for j, n in enumerate(ns) if j % K == k]
    for n in ns:
        ctx.check(dict(kind="dec_ring", n=n))
        ctx.check(dict(kind="dec_branch", n=n))
        if n >= 1:
            ctx.check(dict(kind="enc_ring", n=n))
        ctx.check(dict(kind="enc_branch", n=n))
    if ctx.tier == "thorough":
        ctx.acc.exhaustive["api_n"] = "decoder ring/branch and encoder ring/branch for all n in [0, 16^3)"

    def gen(ch):
        w = ch.int(0, 5)
        if w == 0:
            return dict(kind="fn_n", n=ch.int(4096, 16 ** 4 + 70000))
        if w == 1:
            L = ch.int(1, 3)
            m = ch.int(0, L)
            syms_ = [ch.pick(INDEX + NON_INDEX) for _ in range(m)]
            return dict(kind="dec_ring_syms", syms=syms_, L=L)
        n = ch.weighted([(3, None), (1, 15), (1, 16), (1, 255), (1, 256), (1, 4095)])
        if n is None:
            n = ch.int(0, 4095) if ch.bool(30) else ch.int(0, 600)
        return dict(kind=["dec_ring", "dec_branch", "enc_ring", "enc_branch"][w - 2], n=max(n, 1 if w == 4 else 0))

    # ring symbols with a bond order or cis/trans marks, at the one/two/three-symbol boundaries
    j = 0
    for pre in ("=", "#", "-/", "/-", "\\/", "//", "\\-", "-\\", "/\\", "\\\\"):
        for n in (1, 7, 15, 16, 17, 255, 256, 257, 300, 1000, 4095):
            if j % K == k:
                ctx.check(dict(kind="dec_ring", n=n, pre=pre))
            j += 1
    # every non-index symbol at every digit position of a two-digit ring index
    j = 0
    for sym in NON_INDEX:
        for pos in (0, 1):
            for other in ("[Ring1]", "[P]"):
                if j % K == k:
                    syms_ = [other, other]
                    syms_[pos] = sym
                    ctx.check(dict(kind="dec_ring_syms", syms=syms_, L=2))
                j += 1
    ctx.drive("sampled", gen, ctx.n(150, 1500), max_bytes=40)
