"""C17 - attribution is observation-only and truthful about tokens."""
import selfies as sf

from vf import gen_mol as GM
from vf import gen_selfies as G
from vf import gen_table as T
from vf import oracles as O
from vf import refderive as R
from vf import refsmiles
from vf import roundtrip as RTM
from vf.core import Fail, Result, call

ID = "C17"
LEVEL = "exploration"
RULE = ("decoder side: state-aware SELFIES strings with 1-4 fragments, [nop]s, nested branches, rings and truncated index reads "
        "at the end of a fragment, under generated tables; encoder side: generated molecule spellings (nested branches, several "
        "fragments, ring closures with bond symbols) and corpus SMILES. Oracle: first components equal the plain calls; decoder: "
        "each entry's token is found in the output ending at the reported index, each contributing (i, symbol) is the i-th symbol "
        "of the input ignoring [nop] and '.', each output atom is attributed to exactly the atom symbol R2 says created it plus "
        "the branch symbols R2 has open there; encoder: the k-th SELFIES atom symbol (position from R2 on the output) has an "
        "entry (position, symbol) attributed to the k-th SMILES atom token at its index in an independent tokenisation "
        "(bond before an atom counts one, bond+ring digit one, parentheses one each, dots not counted). "
        "non-trivial = decoder: >= 2 fragments or an atom inside a branch; encoder: an atom inside a branch; "
        "distinct = distinct input")
ASSUMPTIONS = ["R2 origins (which symbol created which atom, which branch symbols enclose it)",
               "SMILES token index convention pinned by tests/test_selfies.py::test_encoder_attribution",
               "encoder-side indices of ring / branch / index symbols are not asserted (the statement speaks of atom symbols)"]
SELFTESTS = [R.selftest, refsmiles.selftest, GM.selftest]


def out_atom_ends(smiles):
    """[(end index, atom token text)] for every atom token of an output SMILES"""
    out = []
    i = 0
    n = len(smiles)
    while i < n:
        c = smiles[i]
        if c == "[":
            j = smiles.index("]", i)
            out.append((j, smiles[i:j + 1]))
            i = j + 1
        elif smiles[i:i + 2] in ("Cl", "Br"):
            out.append((i + 1, smiles[i:i + 2]))
            i += 2
        elif c.isalpha():
            out.append((i, c))
            i += 1
        elif c == "%":
            i += 3
        else:
            i += 1
    return out


def smiles_atom_tokens(s):
    """[(token index, atom token text)] under the convention the repository's test pins"""
    out = []
    t = 0
    i = 0
    n = len(s)
    while i < n:
        c = s[i]
        if c == ".":
            i += 1
            continue
        bond = False
        if c in "-=#/\\:":
            bond = True
            i += 1
            c = s[i]
        if c == "[":
            j = s.index("]", i)
            if bond:
                t += 1
            out.append((t, s[i:j + 1]))
            i = j + 1
        elif s[i:i + 2] in ("Cl", "Br"):
            if bond:
                t += 1
            out.append((t, s[i:i + 2]))
            i += 2
        elif c.isalpha():
            if bond:
                t += 1
            out.append((t, c))
            i += 1
        elif c == "%":
            i += 3
        else:
            i += 1
        t += 1
    return out


def eval_decoder(case):
    spec = case["table"]
    table = O.use_table(spec)
    if table is None:
        return Result(skipped="table not accepted by the library")
    toks = case["toks"]
    x = "".join(toks)
    plain = O.dec_outcome(x)
    r = call(sf.decoder, x, attribute=True, expected=(sf.DecoderError,))
    sample = dict(selfies=x[:200])
    if plain[0] != "ok":
        if (r[0] == "err") != (plain[0] == "err"):
            return Result(Fail("dec:attribute_changes_outcome", selfies=x[:300], plain=plain, attributed=str(r)[:200]), sample=sample)
        return Result(None, False, ("rejected",), sample=sample)
    if r[0] != "ok":
        return Result(Fail("dec:attribute_raises", selfies=x[:300], got=str(r)[:300]), sample=sample)
    try:
        smiles, am = r[1]
    except Exception:  # noqa
        return Result(Fail("dec:return_shape", got=repr(r[1])[:200]), sample=sample)
    sample["smiles"] = smiles[:160]
    if smiles != plain[1]:
        return Result(Fail("dec:attribute_changes_result", selfies=x[:300], plain=plain[1][:200], attributed=smiles[:200]), sample=sample)
    try:
        rm = R.derive(x, table)
    except R.Reject:
        return Result(Fail("dec:reference_rejects_but_decoder_accepts", selfies=x[:300]), sample=sample)
    syms = [t for t in toks if t != "[nop]" and t != "."]
    multi = len(rm.roots) > 1
    inside = any(o[2] for o in rm.origin)
    nontrivial = multi or inside
    classes = []
    if multi:
        classes.append("multi_fragment")
    if inside:
        classes.append("atom_in_branch")
    if rm.stats["index_truncated"]:
        classes.append("index_truncated")
    if "[nop]" in toks:
        classes.append("has_nop")
    # which fragment does an output character index belong to
    frag_starts = [0]
    for i, c in enumerate(smiles):
        if c == ".":
            frag_starts.append(i + 1)

    def frag_of_char(i):
        k = 0
        for f, st in enumerate(frag_starts):
            if i >= st:
                k = f
        return k
    fail = None
    by_end = {}
    for a in am:
        tok, idx = a.token, a.index
        if not isinstance(tok, str) or not isinstance(idx, int) or smiles[max(0, idx - len(tok) + 1): idx + 1] != tok or idx - len(tok) + 1 < 0:
            q = "fragment>0" if (multi and isinstance(idx, int) and 0 <= idx < len(smiles) + len(frag_starts) and
                                 _shifted_ok(smiles, frag_starts, a)) else "other"
            fail = Fail("attr:dec-out-index:" + q, selfies=x[:300], smiles=smiles[:200], entry=[idx, tok])
            break
        for src in (a.attribution or []):
            if not (0 <= src.index < len(syms)) or syms[src.index] != src.token:
                q = "after-truncated-Q" if rm.stats["index_truncated"] and multi else "other"
                fail = Fail("attr:dec-in-index:" + q, selfies=x[:300], entry=[idx, tok], source=[src.index, src.token],
                            actual=(syms[src.index] if 0 <= src.index < len(syms) else None))
                break
        if fail:
            break
        by_end.setdefault(idx, []).append(a)
    if fail is None:
        ends = out_atom_ends(smiles)
        if len(ends) != len(rm.atoms):
            fail = Fail("attr:dec-atom-count", selfies=x[:300], smiles=smiles[:200])
        else:
            for k, (e, text) in enumerate(ends):
                pos, sym, encl = rm.origin[k]
                want = sorted([[p, s] for p, s in encl] + [[pos, sym]])
                cands = [a for a in by_end.get(e, []) if a.token == text]
                if not cands:
                    fail = Fail("attr:dec-atom-missing", selfies=x[:300], smiles=smiles[:200], atom=[e, text])
                    break
                got = sorted([s.index, s.token] for s in (cands[0].attribution or []))
                if got != want:
                    fail = Fail("attr:dec-atom-sources", selfies=x[:300], smiles=smiles[:200], atom=[e, text], want=want, got=got)
                    break
    return Result(fail, nontrivial, classes, sample=sample)


def _shifted_ok(smiles, frag_starts, a):
    """would the entry be right if the index were shifted by the number of '.' before it? (defect: separators ignored)"""
    tok = a.token
    for k in range(1, len(frag_starts)):
        idx = a.index + k
        if smiles[max(0, idx - len(tok) + 1): idx + 1] == tok:
            return True
    return False


def eval_encoder(case):
    spec = case["table"]
    table = O.use_table(spec)
    if table is None:
        return Result(skipped="table not accepted by the library")
    s = case["smiles"]
    plain = O.encode(s, strict=True)
    r = call(sf.encoder, s, strict=True, attribute=True, expected=(sf.EncoderError,))
    sample = dict(smiles=s[:200])
    if plain[0] != "ok":
        if r[0] == "ok" or (r[0] == "exc") != (plain[0] == "exc"):
            return Result(Fail("enc:attribute_changes_outcome", smiles=s[:300], plain=str(plain)[:200], attributed=str(r)[:200]), sample=sample)
        return Result(skipped="encoder does not accept", sample=sample)
    if r[0] != "ok":
        return Result(Fail("enc:attribute_raises", smiles=s[:300], got=str(r)[:300]), sample=sample)
    try:
        e, am = r[1]
    except Exception:  # noqa
        return Result(Fail("enc:return_shape", got=repr(r[1])[:200]), sample=sample)
    sample["selfies"] = e[:200]
    if e != plain[1]:
        return Result(Fail("enc:attribute_changes_result", smiles=s[:300], plain=plain[1][:200], attributed=e[:200]), sample=sample)
    try:
        rm = R.derive(e, table)
    except R.Reject:
        return Result(skipped="encoder output rejected by R2 (C10 domain)", sample=sample)
    atoms = smiles_atom_tokens(s)
    if len(atoms) != len(rm.atoms):
        return Result(skipped="atom count differs (C03 domain)", sample=sample)
    entries = {}
    for a in am:
        entries.setdefault((a.index, a.token), []).append(a)
    depth_of = lambda k: len(rm.origin[k][2])  # noqa
    nontrivial = any(o[2] for o in rm.origin)
    classes = []
    if nontrivial:
        classes.append("atom_in_branch")
    if any(depth_of(k) >= 2 for k in range(len(rm.atoms))):
        classes.append("atom_in_nested_branch")
    if len(rm.roots) > 1:
        classes.append("multi_fragment")
    fail = None
    for k, (t, text) in enumerate(atoms):
        pos, sym, encl = rm.origin[k]
        cands = entries.get((pos, sym), [])
        ok = any(any(src.index == t and src.token == text for src in (a.attribution or [])) for a in cands)
        if not ok:
            frag = sum(1 for rt_ in rm.roots if rt_ <= k) - 1
            if len(encl) >= 2:
                q = "nested-branch"
            elif len(encl) == 1 and frag > 0:
                q = "branch-in-later-fragment"
            elif len(encl) == 1:
                q = "branch"
            else:
                q = "chain"
            found = [[a.index, a.token, [[x.index, x.token] for x in (a.attribution or [])]] for a in am if a.token == sym][:4]
            fail = Fail("attr:enc-selfies-index:" + q, smiles=s[:300], selfies=e[:300], atom=k, want=[pos, sym, [t, text]], found=found)
            break
    return Result(fail, nontrivial, classes, sample=sample)


def evaluate(case):
    if case["kind"] == "dec":
        return eval_decoder(case)
    return eval_encoder(case)


def gen_dec(ch):
    spec = T.gen_valid_table(ch) if ch.bool(30) else "default"
    toks = G.gen_live(ch, T.table_dict(spec), max_len=ch.weighted([(8, 40), (2, 100)]), frag_percent=ch.pick([0, 4, 15]))
    return dict(kind="dec", table=spec, toks=toks or ["[C]"])


def gen_enc(ch):
    c = RTM.gen_case(ch, max_atoms=ch.weighted([(6, 14), (2, 30)]), stereo=20, brackets=20, aromatic=10, table_mode="fit")
    if c is None:
        return None
    return dict(kind="enc", table=c["table"], smiles=c["smiles"])


def gen_dec_templates(ch):
    """big structured strings (many rings incl. > 99 over several fragments, long chains, towers): the flag must not
    change the translation there either"""
    toks = G.gen_template(ch) if hasattr(G, "gen_template") else None
    w = ch.int(0, 3)
    unit = ["[C]", "[C]", "[C]", "[Ring1]", "[Ring1]"]
    if w == 0:
        toks = unit * ch.pick([40, 70, 101]) + ["."] + unit * ch.pick([3, 40, 60]) + ["."] + unit * ch.int(1, 5)
    elif w == 1:
        toks = G.tower_tokens(ch.pick([20, 120, 400]), "[C]") + [".", "[O]", "[C]"]
    elif w == 2 or toks is None:
        toks = ["[C]"] * ch.pick([200, 600]) + ["[Ring3]", "[C]", "[Ring1]", "[Ring2]", ".", "[N]", "[=O]"]
    return dict(kind="dec", table="default", toks=toks)


def shard(ctx):
    ctx.drive("decoder_templates", gen_dec_templates, ctx.n(6, 60), max_bytes=64)
    if ctx.shard == 0:
        unit = ["[C]", "[C]", "[C]", "[Ring1]", "[Ring1]"]
        ctx.check(dict(kind="dec", table="default", toks=unit * 101 + ["."] + unit * 3))
        ctx.check(dict(kind="dec", table="default", toks=unit * 60 + ["."] + unit * 50 + ["."] + unit * 2))
    ctx.drive("decoder", gen_dec, ctx.n(2000, 30000), max_bytes=1200)
    ctx.drive("encoder", gen_enc, ctx.n(2000, 30000), max_bytes=900)
