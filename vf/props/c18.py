"""C18 - compatible=True is a conservative extension for pre-v2 symbols."""
from vf import gen_selfies as G
from vf import gen_table as T
from vf import oracles as O
from vf import refderive as R
from vf import refsmiles
from vf.core import Fail, Result, call
import selfies as sf

ID = "C18"
LEVEL = "exploration"
RULE = ("modern strings from the state-aware generator in which a drawn subset of symbols is replaced by a legacy spelling "
        "whose modern equivalent is known by construction ([BranchL_M], [Expl=RingL], [Expl#RingL], [Expl/RingL], "
        "[Expl\\RingL], [<B><bracket atom spelling>expl] with H/H1, ++/+2, leading isotope zeros ...), plus near-legacy junk "
        "without an equivalent. Oracle: compatible=True on the legacy string == plain decoder on the modern string; on a "
        "string without legacy symbols == plain decoder; without the flag DecoderError <=> R2 reaches a legacy symbol. "
        "non-trivial = >= 1 legacy symbol that the derivation reaches (R2 on the modern string uses its position); "
        "distinct = distinct (table, legacy string)")
ASSUMPTIONS = ["legacy->modern map as documented in CHANGELOG.md v2.0.0 / docs (expl dropped and the atom standardised, "
               "[BranchL_M] -> [''/=/#BranchL], [Expl<B>RingL] -> [<B>RingL] with / and \\ becoming // and \\\\)",
               "R2 treats legacy symbols as outside the grammar"]
SELFTESTS = [R.selftest, refsmiles.selftest]

JUNK = ["[Expl-Ring1]", "[Branch1_0]", "[Branch4_1]", "[expl]", "[nHexpl]", "[cexpl]", "[Branch1_4]", "[ExplRing1]",
        "[Expl=Ring4]", "[Cexpl ]", "[Branch_1]", "[=expl]", "[C@@@Hexpl]", "[Expl=Branch1]", "[Xxexpl]", "[CH10expl]"]


def legacy_of(ch, sym):
    """legacy spelling of a modern symbol, or None"""
    m = R.BRANCH.match(sym)
    if m:
        return "[Branch%s_%d]" % (m.group(2), {"": 1, "=": 2, "#": 3}[m.group(1)])
    m = R.RING.match(sym)
    if m:
        pre, L = m.groups()
        if pre in ("=", "#"):
            return "[Expl%sRing%s]" % (pre, L)
        if pre == "//":
            return "[Expl/Ring%s]" % L
        if pre == "\\\\":
            return "[Expl\\Ring%s]" % L
        return None
    m = R.ATOM.match(sym)
    if m:
        b, iso, el, chir, h, chg = m.groups()
        body = sym[1 + len(b):-1]
        if body in refsmiles.ORGANIC:
            return None
        # the modern symbol must be in standard form for the equivalence to be 'by construction'
        if iso and (iso != str(int(iso))):
            return None
        if h == "0" and not (iso == "" and chir == "" and not chg and el in refsmiles.ORGANIC):
            return None
        if h is None and iso == "" and chir == "" and not chg and el in refsmiles.ORGANIC:
            return None
        isos = iso
        if iso and ch.bool(30):
            isos = "0" * ch.int(1, 2) + iso
        if h is None or h == "0":
            hs = "" if ch.bool(70) else "H0"
        elif h == "1":
            hs = "H" if ch.bool(50) else "H1"
        else:
            hs = "H" + h
        if chg:
            n = int(chg[1:])
            if n <= 4 and ch.bool(50):
                cs = chg[0] * n
            else:
                cs = chg
        else:
            cs = "" if ch.bool(85) else ch.pick(["+0", "-0"])
        cls = "" if ch.bool(90) else ":%d" % ch.int(0, 99)
        return "[%s%s%s%s%s%s%sexpl]" % (b, isos, el, chir, hs, cs, cls)
    return None


def evaluate(case):
    spec = case["table"]
    table = O.use_table(spec)
    if table is None:
        return Result(skipped="table not accepted by the library")
    modern = case["modern"]
    legacy = case["legacy"]
    sm = "".join(modern)
    sl = "".join(legacy)
    n_leg = sum(1 for a, b in zip(modern, legacy) if a != b)
    has_junk = any(t in JUNK for t in legacy)
    ref = O.dec_outcome(sm)
    sample = dict(legacy=sl[:200], modern=sm[:200])
    fail = None
    a = O.dec_outcome(sm, compatible=True)
    if a != ref:
        fail = Fail("compat:changes_modern_string", modern=sm[:300], plain=ref, compatible=a, table=spec)
    if fail is None:
        b = O.dec_outcome(sl, compatible=True)
        if b != ref:
            fail = Fail("compat:legacy_not_equivalent", legacy=sl[:300], modern=sm[:300], want=ref, got=b, table=spec)
    if fail is None and case.get("attr") and ref[0] == "ok":
        # 'returns exactly what decoder(x) returns' also holds for the (string, attribution) pair of attribute=True
        def attributed(x, **kw):
            r = call(sf.decoder, x, attribute=True, expected=(sf.DecoderError,), **kw)
            if r[0] != "ok":
                return r[:2]
            try:
                return ("ok", r[1][0], [[a.index, a.token, [[q.index, q.token] for q in (a.attribution or [])]] for a in r[1][1]])
            except Exception:  # noqa
                return ("shape", repr(r[1])[:100])
        a0 = attributed(sm)
        a1 = attributed(sm, compatible=True)
        if a0 != a1:
            fail = Fail("compat:changes_attributed_result_of_modern_string", modern=sm[:300], plain=str(a0)[:300], compatible=str(a1)[:300])
    classes = []
    nontrivial = False
    if case.get("attr"):
        classes.append("attribute_flag")
    if fail is None:
        # without the flag: rejected exactly when a legacy symbol is reached
        try:
            rm = R.derive(sl, table)
        except R.Reject:
            rm = None
        p = O.dec_outcome(sl)
        if p[0] == "exc":
            fail = Fail("plain:" + p[1], legacy=sl[:300])
        elif (p[0] == "err") != (rm is None):
            fail = Fail("plain:legacy_accept_mismatch", legacy=sl[:300], reference_rejects=rm is None, got=p)
        else:
            classes.append("plain_rejects" if rm is None else "plain_accepts_unreached")
        try:
            rmod = R.derive(sm, table)
            reached = {o[0] for o in rmod.origin} | rmod.index_pos
            # positions (ignoring nop, '.') of replaced symbols
            g = 0
            for x, y in zip(modern, legacy):
                if x not in ("[nop]", "."):
                    if x != y and (g in reached or R.BRANCH.match(x) or R.RING.match(x)):
                        nontrivial = True
                    g += 1
        except R.Reject:
            classes.append("modern_rejected")
    if n_leg:
        classes.append("legacy_symbols")
    else:
        classes.append("no_legacy_symbols")
    if has_junk:
        classes.append("near_legacy_junk")
    kinds = set()
    for x, y in zip(modern, legacy):
        if x != y:
            kinds.add("legacy_branch" if "Branch" in y else "legacy_ring" if "Ring" in y else "legacy_atom")
    classes.extend(sorted(kinds))
    return Result(fail, nontrivial, classes, sample=sample)


def gen_case(ch):
    spec = T.gen_valid_table(ch) if ch.bool(30) else "default"
    table = T.table_dict(spec)
    toks = G.gen_live(ch, table, max_len=ch.weighted([(8, 40), (2, 100)]))
    if not toks:
        toks = ["[C]"]
    # make bracket atoms frequent
    p_leg = ch.pick([0, 20, 50, 90])
    modern, legacy = [], []
    for t in toks:
        if ch.bool(3):
            j = ch.pick(JUNK)          # junk has no equivalent: it stays as it is on both sides
            modern.append(j)
            legacy.append(j)
            continue
        l = legacy_of(ch, t) if p_leg and ch.bool(p_leg) else None
        modern.append(t)
        legacy.append(l if l is not None else t)
    return dict(table=spec, modern=modern, legacy=legacy, attr=ch.bool(30))


def shard(ctx):
    if ctx.shard == 0:
        for L in (1, 2, 3):
            for old, new in (("[Branch%d_1]", "[Branch%d]"), ("[Branch%d_2]", "[=Branch%d]"), ("[Branch%d_3]", "[#Branch%d]"),
                             ("[Expl=Ring%d]", "[=Ring%d]"), ("[Expl#Ring%d]", "[#Ring%d]"), ("[Expl/Ring%d]", "[//Ring%d]"),
                             ("[Expl\\Ring%d]", "[\\\\Ring%d]")):
                pre = ["[S]", "[C]", "[C]", "[C]"]
                post = ["[Ring1]", "[C]", "[C]", "[F]", "[C]"]
                ctx.check(dict(table="hypervalent", modern=pre + [new % L] + post, legacy=pre + [old % L] + post))
    ctx.drive("main", gen_case, ctx.n(2000, 30000), max_bytes=1200)
