"""C19 - concurrent translation calls give the same results as serial calls."""
import itertools
import sys
import threading

import selfies as sf

from vf import gen_mol as GM
from vf import gen_selfies as G
from vf import oracles as O
from vf import refderive as R
from vf import sched
from vf.core import Fail, Result

ID = "C19"
LEVEL = "exploration"
RULE = ("2-4 jobs drawn from decoder / encoder calls (with attribute / strict flags) on small inputs that share symbols, "
        "contain symbols never seen before in the process (fresh isotopes, so the first-sight write to the symbol cache "
        "happens inside the interleaving) and include aromatic inputs (kekulization, matching); a generated schedule of up to "
        "200 (thread, opcode-count) segments executed by a deterministic opcode-level scheduler (sys.settrace with "
        "f_trace_opcodes inside selfies frames; a thread that waits for something a paused thread holds is set aside and the "
        "others run on); plus subprocess sub-tiers with free-running threads (switch interval 1e-6 s): stress (8-16 threads, "
        "caches warm, the same never-seen symbols met by all threads at the same call number, towers of 700-1800 nested "
        "branches next to ordinary calls) and cold start (fresh interpreters whose first translation calls are made by 4-8 "
        "threads at once, so lazily built tables are filled inside the race; ever-new bracket atoms; ring sizes up to 560 "
        "re-checked against the documented code after the race). Oracle: every job's result (value or exception class) equals "
        "the result of the same call run alone before and after the concurrent phase (fresh-isotope jobs: alone on an equally "
        "fresh isotope, renamed) and in another process; calls that return within milliseconds alone must not wait for ever "
        "(no opcode executed in any unfinished thread for 30 s / no call completed by any thread for 45 s). non-trivial = "
        ">= 5 switches while >= 2 jobs are mid-call inside selfies frames; distinct = distinct (jobs, schedule)")
ASSUMPTIONS = ["switches are forced only at opcode boundaries of frames under /repo/selfies; C-level internals of lru_cache, dict, "
               "re are assumed atomic under the GIL (CPython 3.12 GIL build)",
               "the constraint table is fixed (default) during a case"]
SELFTESTS = [R.selftest, sched.selftest]
EVAL_TIMEOUT = 600          # a cold / stress case may wait 45 s to tell stalled threads from slow ones

_fresh = itertools.count(70001)
_ring_size = [24]          # sizes below this have been requested in this process already


def _digits(n):
    from vf.refderive import INDEX
    d = []
    while True:
        d.append(INDEX[n % 16])
        n //= 16
        if n == 0:
            break
    return d[::-1]


def _ring_expected(n):
    """encoder('C1' + 'C'*(n+1) + '1') by the documented index code (own arithmetic, cf. C16)"""
    d = _digits(n)
    return "[C]" * (n + 2) + "[Ring%d]" % len(d) + "".join(d)


def _job(kind, text, flags):
    if kind == "dec":
        def run():
            r = sf.decoder(text, attribute=bool(flags.get("attribute")), compatible=bool(flags.get("compatible")))
            if flags.get("attribute"):
                return [r[0], [[a.index, a.token, [[x.index, x.token] for x in (a.attribution or [])]] for a in r[1]]]
            return r
    else:
        def run():
            r = sf.encoder(text, strict=bool(flags.get("strict", True)), attribute=bool(flags.get("attribute")))
            if flags.get("attribute"):
                return [r[0], [[a.index, a.token, [[x.index, x.token] for x in (a.attribution or [])]] for a in r[1]]]
            return r
    return run


def _alone(kind, text, flags):
    try:
        return ("ok", _job(kind, text, flags)())
    except Exception as e:  # noqa
        return ("exc", type(e).__name__, str(e)[:200])


def _alone_watched(kind, text, flags):
    """like _alone, on a thread of its own that is watched for progress (sched.Stalled when it waits for ever)"""
    try:
        return ("ok", sched.run_watched(_job(kind, text, flags)))
    except sched.Stalled:
        raise
    except Exception as e:  # noqa
        return ("exc", type(e).__name__, str(e)[:200])


def _norm(r, iso_from, iso_to):
    """rename the fresh isotope in a result so that runs on different fresh isotopes are comparable;
    exception messages quote the input and are reduced to the class"""
    if r[0] == "exc":
        return ("exc", r[1])
    import json
    return ("ok", json.loads(json.dumps(r[1]).replace(str(iso_from), str(iso_to))))


def evaluate(case):
    O.use_table("default")
    sched.warm_up()
    jobs = case["jobs"]
    if case.get("kind") == "stress":
        return _stress(case)
    if case.get("kind") == "cold":
        return _cold(case)
    # jobs that ask for never-requested ring sizes: any table that is grown lazily grows inside the interleaving;
    # their results are judged against the documented index code, not against another run
    ring_jobs = [j for j in jobs if j["kind"] == "enc_ring_fresh"]
    if ring_jobs:
        jobs = list(jobs)
        lo = _ring_size[0]
        for k, j in enumerate(jobs):
            if j["kind"] == "enc_ring_fresh":
                n = _ring_size[0] + j["stride"]
                _ring_size[0] = n
                jobs[k] = dict(kind="enc", text="C1" + "C" * (n + 1) + "1", flags={}, ring_n=n)
        hi = _ring_size[0]
        if hi > 3500:
            _ring_size[0] = 24
    # materialise fresh isotopes: {u} in a job's text
    isoA = next(_fresh)
    isoB = next(_fresh)
    isoC = next(_fresh)
    texts = lambda iso: [j["text"].replace("{u}", str(iso)) for j in jobs]  # noqa
    # no_before: the very first time this process sees these inputs is inside the interleaving (memo caches keyed by
    # the input or by something derived from it are then filled - and possibly still being worked on - concurrently)
    no_before = bool(case.get("no_before"))
    fail = None
    phase = "before"
    s = None
    try:
        before = [(None if ("ring_n" in j or no_before) else _alone_watched(j["kind"], t, j.get("flags", {}))) for j, t in zip(jobs, texts(isoA))]
        phase = "concurrent"
        s = sched.Sched([_job(j["kind"], t, j.get("flags", {})) for j, t in zip(jobs, texts(isoB))], [tuple(x) for x in case["schedule"]])
        conc = s.run()
        phase = "after"
        after = [_alone_watched(j["kind"], t, j.get("flags", {})) for j, t in zip(jobs, texts(isoC))]
    except sched.Stalled as e:
        # calls that return within milliseconds alone wait for ever (no opcode executed for 30 s in any of them)
        what = "calls_wait_for_each_other_for_ever" if phase == "concurrent" else "call_alone_waits_for_ever_%s_concurrent_calls" % phase
        f = Fail("%s@%s" % (what, e.where), jobs=jobs[:4], schedule=case["schedule"][:40])
        f.poisons_process = True      # whatever is being waited for stays taken: later cases in this process would wait too
        return Result(f, True, ("stalled",),
                      sample=dict(jobs=jobs, segments=len(case["schedule"])))
    for k, j in enumerate(jobs):
        if "ring_n" in j:
            want = ("ok", _ring_expected(j["ring_n"]))
            for what, got in (("concurrent", conc[k]), ("after", after[k])):
                if tuple(got[:2]) != want:
                    fail = Fail("concurrent_differs_from_documented_code:enc", ring_n=j["ring_n"], phase=what, got=str(got)[-200:],
                                schedule=case["schedule"][:40])
                    break
            if fail:
                break
            continue
        a = _norm(after[k], isoC, "U")
        b = a if no_before else _norm(before[k], isoA, "U")
        c = _norm(conc[k], isoB, "U")
        if b != a:
            fail = Fail("serial_runs_disagree", job=j, before=str(b)[:300], after=str(a)[:300])
            break
        if c != b:
            fail = Fail("concurrent_differs_from_serial:" + j["kind"], job=j, serial=str(b)[:400], concurrent=str(c)[:400],
                        schedule=case["schedule"][:40])
            break
    if fail is None and ring_jobs:
        # everything that was grown during the interleaving must now hold the right entries
        for n in range(max(1, lo - 1), hi + 2):
            r = _alone("enc", "C1" + "C" * (n + 1) + "1", {})
            if tuple(r[:2]) != ("ok", _ring_expected(n)):
                fail = Fail("table_corrupted_by_concurrent_growth:enc", ring_n=n, got=str(r)[-200:], grown=[lo, hi],
                            schedule=case["schedule"][:40])
                break
    nontrivial = s.switches_mid_call >= 5
    classes = ["jobs=%d" % len(jobs)]
    if ring_jobs:
        classes.append("fresh_ring_sizes_inside_interleaving")
    if no_before:
        classes.append("first_sight_of_input_inside_interleaving")
    if any("{u}" in j["text"] for j in jobs):
        classes.append("fresh_symbol_inside_interleaving")
    if any(j["kind"] == "enc" and "ring_n" not in j and ("c" in j["text"] or "n" in j["text"]) for j in jobs):
        classes.append("aromatic_job")
    if any(j.get("flags", {}).get("attribute") for j in jobs):
        classes.append("attribute_job")
    if s.switches_mid_call >= 20:
        classes.append("switches>=20")
    return Result(fail, nontrivial, classes, sample=dict(jobs=jobs, segments=len(case["schedule"]), switches_mid_call=s.switches_mid_call,
                                                         opcodes=s.steps))


def _stress(case):
    """free-running threads in an interpreter whose caches are warm (every job has run alone before the threads start);
    {u} becomes a never-seen isotope that all threads meet at about the same time and that changes every 50 calls"""
    jobs = [dict(j, text=j["text"].replace("{u}", "{w}")) for j in case["jobs"]]
    rounds = max(1, case["calls"] // len(jobs))
    return _cold(dict(kind="cold", jobs=jobs, threads=case["threads"], rounds=rounds, rotate=True, warm=True, w_every=50),
                 classes=("stress",))


def _expand(j):
    """{tower:D} in a job text is a tower of D nested branches (built here, not stored in the case)"""
    import re as _re
    m = _re.fullmatch(r"\{tower:(\d+)\}", j["text"])
    if m:
        return dict(j, text="".join(G.tower_tokens(int(m.group(1)), "[C]")))
    return j


def _cold(case, classes=("cold_start",)):
    """first calls of a fresh interpreter made concurrently (lazily built tables / memo caches are filled inside the race)"""
    import json
    import os
    import subprocess
    from vf.core import HERE, REPO, HarnessError
    env = dict(os.environ, PYTHONPATH="%s:%s" % (REPO, HERE), PYTHONHASHSEED="0")
    import re as _re
    sizes = [len(j["text"]) - 3 for j in case["jobs"] if j["kind"] == "enc" and _re.fullmatch(r"C1C+1", j["text"])]
    scan_lo = max(1, min(sizes) - 2) if sizes and max(sizes) > 150 else 1
    xjobs = [_expand(j) for j in case["jobs"]]
    q = dict(jobs=xjobs, threads=case["threads"], rounds=case["rounds"], rotate=case.get("rotate", True),
             scan_rings=(max(sizes) + 3 if sizes else 0), scan_lo=scan_lo, warm=bool(case.get("warm")), w_every=case.get("w_every", 1), stall_seconds=45)
    try:
        p = subprocess.run([sys.executable, "-m", "vf.coldstress"], input=json.dumps(q).encode(), stdout=subprocess.PIPE,
                           stderr=subprocess.PIPE, env=env, timeout=500)
    except subprocess.TimeoutExpired:
        raise HarnessError("cold-start subprocess exceeded its time budget (inconclusive)")
    if p.returncode != 0:
        raise HarnessError("cold-start subprocess failed: " + p.stderr.decode()[-600:])
    out = json.loads(p.stdout.decode())
    if not out["file"].startswith(REPO):
        raise HarnessError("cold-start subprocess imported selfies from " + out["file"])
    fail = None
    if out["alive"]:
        # no thread completed a call for 45 s although every call takes milliseconds alone: the threads wait for each other
        fail = Fail("cold:threads_stalled", jobs=case["jobs"][:3], calls_completed=out["calls"], threads_alive=out["alive"])
    elif out["mismatches"]:
        m = out["mismatches"][0]
        fail = Fail("cold:concurrent_differs_from_serial:" + m["job"]["kind"], **m)
    if fail is None:
        for n, got in enumerate(out.get("ring_scan", []), start=scan_lo):
            if got != _ring_expected(n):
                fail = Fail("cold:table_corrupted_by_concurrent_first_use:enc", ring_n=n, got=str(got)[-160:], want=_ring_expected(n)[-160:])
                break
    if fail is None:
        # a race may corrupt a shared table for good, so that the serial run *after* it agrees with the wrong
        # concurrent results: compare with a serial run in this (other) process as well
        import json as _json
        for k, j in enumerate(xjobs):
            if "{tower:" in case["jobs"][k]["text"]:
                continue    # depends on the interpreter's recursion limit, which differs between this process and the subprocess
            try:
                mine = _alone_watched(j["kind"], j["text"].replace("{v}", "10000").replace("{w}", "20000"), j.get("flags", {}))
            except sched.Stalled as e:
                # this process made concurrent calls in earlier cases; a call made alone now waits for ever
                fail = Fail("call_alone_waits_for_ever_after_concurrent_calls@%s" % e.where, job=case["jobs"][k],
                            note="left over from the concurrent calls of an earlier case in this process")
                fail.poisons_process = True
                break
            mine = ["exc", mine[1]] if mine[0] == "exc" else ["ok", _json.loads(_json.dumps(mine[1]))]
            if "{v}" in j["text"] or "{w}" in j["text"]:
                mine = _json.loads(_json.dumps(mine).replace("10000", "V").replace("20000", "W"))
            theirs = out["concurrent_distinct"].get(str(k), []) + [out["serial_after"][k]]
            bad = [t for t in theirs if t != mine]
            if bad:
                fail = Fail("cold:results_differ_from_serial_run_in_another_process:" + j["kind"], job=case["jobs"][k], serial=str(mine)[:300],
                            after_concurrent_start=str(bad[0])[:300])
                break
    classes = tuple(classes) + ("threads=%d" % case["threads"],)
    if any("{tower:" in j["text"] for j in case["jobs"]):
        classes += ("deep_nesting_job",)
    if any("{w}" in j["text"] for j in case["jobs"]):
        classes += ("same_new_symbol_in_all_threads",)
    return Result(fail, True, classes, extra=out["calls"],
                  sample=dict(jobs=case["jobs"][:3], threads=case["threads"], calls=out["calls"]))


DEC_POOL = ["[C][=C][Branch1][C][O][C][Ring1][Ring2][{u}OH1]", "[N][{u}OH1][C]", "[{u}C][C][C][Ring1][Ring1][=Ring1][Ring1]",
            "[C][C@@H1][Branch1][C][F][Cl]", "[S][=Branch1][C][=O][=Branch1][C][=O][{u}O]", "[C][C][Xx]", "[{u}N+1][=C][Fe+3][#C]",
            "[C][Branch1][=Branch1][{u}C][Branch1][C][F][Cl][Br].[Na+1]", "[C][/C][=C][\\{u}F]"]
ENC_POOL = ["c1ccccc1[C@H](F)Cl", "[{u}CH3]C(=O)O", "c1ccc2ccccc2c1", "[nH]1cccc1C[{u}N]", "C1CC1C(C(F)Cl)Br", "F/C=C/[{u}F]",
            "c1ccccc1c1ccncc1", "C(", "[{u}Fe+3].[O-]C", "O=C1NC=NC2=C1N=CN2[{u}C@@H]1CCCO1",
            # systems on which the greedy phase of the matching is not perfect (augmenting paths / blossoms are needed)
            "c1cc2c3ccccc3sc2c2ccccc12", "c1ccc2c(c1)c1cccc3cccc2c31", "c1cc2cccc3ccc4cccc1c4c32", "c1c2cccc2c2cccccc12",
            "c1ccc2cc3cc4ccccc4cc3cc2c1.[{u}C]", "c12c3c4c5c1c1c6c7c2c2c8c3c3c9c4c4c%10c5c5c1c1c6c6c%11c7c2c2c7c8c3c3c8c9c4c4c9c%10c5c5c1c1c6c6c%11c2c2c7c3c3c8c4c4c9c5c1c1c6c2c3c41"]


def gen_jobs(ch):
    n = ch.int(2, 4)
    jobs = []
    for _ in range(n):
        if ch.bool(50):
            jobs.append(dict(kind="dec", text=ch.pick(DEC_POOL), flags=dict(attribute=ch.bool(30))))
        else:
            jobs.append(dict(kind="enc", text=ch.pick(ENC_POOL), flags=dict(attribute=ch.bool(30), strict=ch.bool(70))))
    if ch.bool(35):
        jobs[1] = dict(jobs[0])   # the same call twice: maximal sharing
    if ch.bool(10):
        for k in range(2):
            jobs[k] = dict(kind="enc_ring_fresh", stride=ch.int(1, 4))
    return jobs


def gen_fresh_aromatic(ch):
    """a random fused all-carbon aromatic system: most likely a topology this process has never kekulized"""
    from vf import gen_arom as GA
    from vf import refkek as K
    adj = None
    for _ in range(4):
        # prefer systems that do have a Kekule structure and are large enough to need augmenting paths
        adj = GA.fused_system(ch, max_rings=5)
        n = len(adj)
        if n >= 12 and K.has_perfect_matching(n, [sorted(adj[i]) for i in range(n)]):
            break
    wr = GM.write(GA.build(adj, {x: "c" for x in adj}), ch, variants=False)
    return wr["smiles"] if wr else "c1ccc2ccccc2c1"


def gen_case(ch):
    jobs = gen_jobs(ch)
    first_sight = ch.bool(15)
    if first_sight:
        smi = gen_fresh_aromatic(ch)
        jobs[0] = dict(kind="enc", text=smi, flags=dict(strict=False))
        jobs[1] = dict(jobs[0])
        jobs = [j for j in jobs if j["kind"] != "enc_ring_fresh"]
    n = len(jobs)
    segs = []
    style = ch.pick(["fine", "coarse", "mixed", "pingpong"])
    for _ in range(ch.int(1, 200)):
        if segs and ch.exhausted():
            break
        if style == "fine":
            q = ch.int(1, 12)
        elif style == "coarse":
            q = ch.int(50, 1500)
        elif style == "pingpong":
            q = ch.int(1, 3)
        else:
            q = ch.weighted([(5, ch.int(1, 10)), (3, ch.int(10, 200)), (1, ch.int(200, 3000))])
        segs.append([ch.below(n), q])
    case = dict(jobs=jobs, schedule=segs)
    if first_sight:
        case["no_before"] = True
    return case


COLD_DEC = ["[C][=C][Branch1][C][O][C][Ring1][Ring2]", "[C][C][C][C][=Ring1][Ring2]", "[C][Branch2][Ring1][C]" + "[C]" * 18 + "[F]",
            "[C]" * 20 + "[Ring2][Ring1][C]", "[C][C][C][C][-/Ring1][Ring2]", "[S][#Branch1][C][N][=Branch3][C][C][C][O]",
            "[C][C][C][C][C][\\/Ring1][Branch1]", "[C]" * 120 + "[Ring3][C][Ring1][Ring2]", "[N][=Branch2][C][Ring1][O][F]"]


COLD_LEGACY = ["[C][Branch3_1][C][C][C][F][Cl]", "[C][C][C][C][Expl=Ring3][C][C][Ring1]", "[C][Branch2_3][C][Ring1][N][O]", "[C][C][C][Expl\\Ring3][C][C][Ring2]",
               "[C@@Hexpl][Branch1_2][C][=O][C][Expl#Ring1][C]", "[S][Branch1_3][C][#N][Branch2_1][C][C][O-expl]", "[C][C][C][Expl/Ring2][C][Ring1]"]


def gen_cold(ch):
    jobs = []
    # ring / branch sizes of one case come from one band, so that the post-race scan of that band stays cheap
    band = ch.weighted([(6, (3, 140)), (2, (236, 300)), (1, (500, 560))])
    for _ in range(ch.int(3, 6)):
        w = ch.int(0, 5)
        if w == 5:
            jobs.append(dict(kind="dec", text=ch.pick(COLD_LEGACY), flags=dict(compatible=True)))
            continue
        if w == 0:
            jobs.append(dict(kind="dec", text=ch.pick(COLD_DEC), flags={}))
        elif w == 1:
            jobs.append(dict(kind="dec", text=ch.pick(DEC_POOL).replace("{u}", "13"), flags=dict(attribute=ch.bool(30))))
        elif w == 2:
            n = ch.int(band[0], band[1])
            jobs.append(dict(kind="enc", text="C1" + "C" * n + "1", flags={}))
        elif w == 3:
            n = ch.int(band[0], min(band[1], 600))
            jobs.append(dict(kind="enc", text="S(" + "C" * n + ")(F)Cl", flags={}))
        else:
            jobs.append(dict(kind="enc", text=ch.pick(ENC_POOL).replace("{u}", "13"), flags=dict(strict=ch.bool(70))))
    if ch.bool(15):
        # deep nesting next to ordinary calls (on the unchanged tree a tower of >= ~990 levels raises RecursionError, alone
        # and concurrently alike: known finding of C08; the comparison is of outcomes)
        jobs = jobs[:2] + [dict(kind="dec", text="{tower:%d}" % ch.pick([300, 700, 1200, 1800, 2600]), flags={}) for _ in range(ch.int(1, 2))]
        return dict(kind="cold", jobs=jobs, threads=ch.pick([4, 8]), rounds=ch.pick([2, 5]), rotate=ch.bool(50))
    if ch.bool(25):
        # all threads meet the same never-seen symbols at the same call number
        jobs = jobs[:1] + [dict(kind="dec", text="[{w}C][={w}N][{w}OH1][{w}S]", flags={}),
                           dict(kind="enc", text="[{w}CH3]C(=O)[{w}O-].[{w}Na+]", flags={})]
        return dict(kind="cold", jobs=jobs, threads=ch.pick([4, 8]), rounds=ch.pick([100, 200]), rotate=False)
    if ch.bool(40):
        # a stream of ever new bracket atoms (per-call isotope): bounded symbol caches keep evicting
        jobs = jobs[:1] + [dict(kind="enc", text="[{v}CH3]C(=O)[{v}O-].[{v}Na+].[{v}Fe+3]", flags={}),
                           dict(kind="dec", text="[{v}C][={v}N][{v}OH1][{v}S][{v}P][{v}B]", flags={})]
        return dict(kind="cold", jobs=jobs, threads=ch.pick([4, 8]), rounds=ch.pick([100, 200]), rotate=ch.bool(50))
    return dict(kind="cold", jobs=jobs, threads=ch.pick([4, 8, 8]), rounds=ch.pick([1, 1, 2]), rotate=ch.bool(50))


def gen_stress(ch):
    jobs = [j for j in gen_jobs(ch) + gen_jobs(ch) if j["kind"] != "enc_ring_fresh"]
    if not jobs:
        jobs = [dict(kind="dec", text=DEC_POOL[0], flags={})]
    if ch.bool(30):
        jobs.append(dict(kind="dec", text="{tower:%d}" % ch.pick([700, 1200, 1800]), flags={}))
    return dict(kind="stress", jobs=jobs, threads=ch.pick([8, 16]), calls=ch.pick([100, 300]))


def shard(ctx):
    ctx.drive("schedules", gen_case, ctx.n(250, 6000), max_bytes=700)
    ctx.drive("stress", gen_stress, ctx.n(2, 20), max_bytes=64)
    ctx.drive("cold", gen_cold, ctx.n(8, 150), max_bytes=128)
