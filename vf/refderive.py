"""R2 - executable rendering of docs/source/derivation.rst (modern symbol names) and
R5 - the constraint-table model.  Imports nothing from selfies.

derive(x, table) -> RMol            x: str (well formed) or list of fragments (lists of symbols)
raises Reject when the derivation reaches a symbol outside the grammar / unclosed bracket.

Interpretation choices where the tutorial is silent (recorded as assumptions in evidence):
 (i)   an atom whose capacity is 0, met at a state > 0, is not added and ends that derivation
       instance (pinned by tests/test_specific_cases.py::test_explicit_hydrogen_symbols);
 (ii)  a branch's Q+1 is a budget on a shared symbol stream: whatever a nested branch or an index
       read consumes is charged to every enclosing branch;
 (iii) ring targets are counted over all atoms derived so far, across '.'-fragments.
"""
import collections
import re

from vf.refsmiles import ELEMENTS, ORGANIC

INDEX = ["[C]", "[Ring1]", "[Ring2]", "[Branch1]", "[=Branch1]", "[#Branch1]",
         "[Branch2]", "[=Branch2]", "[#Branch2]", "[O]", "[N]", "[=N]", "[=C]", "[#C]", "[S]", "[P]"]
IDX = {s: i for i, s in enumerate(INDEX)}
ATOM = re.compile(r"^\[([=#/\\]?)(\d*)([A-Z][a-z]?)(@{0,2})(?:H(\d))?((?:[+-][1-9]\d*)?)\]$", re.ASCII)
BRANCH = re.compile(r"^\[([=#]?)Branch([123])\]$")
RING = re.compile(r"^\[([=#]?|[-/\\]{2})Ring([123])\]$")
ORDER = {"": 1, "/": 1, "\\": 1, "=": 2, "#": 3}
INF = float("inf")

DEFAULT = {"H": 1, "F": 1, "Cl": 1, "Br": 1, "I": 1, "B": 3, "B+1": 2, "B-1": 4, "O": 2, "O+1": 3, "O-1": 1,
           "N": 3, "N+1": 4, "N-1": 2, "C": 4, "C+1": 3, "C-1": 3, "P": 5, "P+1": 4, "P-1": 6,
           "S": 6, "S+1": 5, "S-1": 5, "?": 8}
PRESETS = {
    "default": dict(DEFAULT),
    "octet_rule": dict(DEFAULT, **{"S": 2, "S+1": 3, "S-1": 1, "P": 3, "P+1": 4, "P-1": 2}),
    "hypervalent": dict(DEFAULT, **{"Cl": 7, "Br": 7, "I": 7, "N": 5}),
}


class Reject(Exception):
    pass


class OutsideDomain(Exception):
    """the string is not a concatenation of bracketed symbols and dots"""


# ---------------------------------------------------------------------------------------- R5


def capacity(table, el, charge):
    key = el if charge == 0 else "%s%+d" % (el, charge)
    return table[key] if key in table else table["?"]


KEY = re.compile(r"^([A-Z][a-z]?)(?:([+-])([1-9][0-9]*))?$", re.ASCII)


def key_is_documented(key):
    """'E', 'E+C', 'E-C' with E an element and C a positive integer (canonical decimal), or '?'"""
    if key == "?":
        return True
    if not isinstance(key, str):
        return False
    m = KEY.fullmatch(key)      # not .match(): '$' would also accept a trailing newline
    return bool(m) and m.group(1) in ELEMENTS


def table_is_documented(t):
    if not isinstance(t, dict) or "?" not in t:
        return False
    for k, v in t.items():
        if not key_is_documented(k):
            return False
        if isinstance(v, bool) or not isinstance(v, int) or v < 0:
            return False
    return True


def expected_alphabet(table):
    """what the statement of C07 requires the robust alphabet to contain"""
    s = set(INDEX)
    for L in (1, 2, 3):
        s.update(["[Branch%d]" % L, "[=Branch%d]" % L, "[#Branch%d]" % L, "[Ring%d]" % L, "[=Ring%d]" % L])
    for k, c in table.items():
        if k == "?":
            continue
        for b, m in (("", 1), ("=", 2), ("#", 3)):
            if m <= c:
                s.add("[%s%s]" % (b, k))
    return s


# ---------------------------------------------------------------------------------------- tokens


def split_fragments(s):
    """well-formed string -> list of fragments, each a list of symbols ([nop] kept)."""
    frags = []
    for part in s.split("."):
        toks = []
        i = 0
        n = len(part)
        while i < n:
            if part[i] != "[":
                raise OutsideDomain("stray text")
            j = part.find("]", i + 1)
            if j < 0:
                raise Reject("unclosed")
            tok = part[i:j + 1]
            if "[" in tok[1:]:
                raise OutsideDomain("nested bracket")
            toks.append(tok)
            i = j + 1
        frags.append(toks)
    return frags


# ---------------------------------------------------------------------------------------- molecule


class RMol:
    def __init__(self):
        self.atoms = []        # dict(el, iso, chir, h, charge)
        self.caps = []         # capacity - explicit H
        self.bonds = {}        # (i,j) i<j -> order
        self.chain_mark = {}   # (i,j) -> '/' or '\\' as written before atom j
        self.ring_mark = {}    # (i,j) -> (mark at i's digit, mark at j's digit)
        self.children = []
        self.parent = []
        self.rings_at = []     # ring partners in formation order
        self.roots = []
        self.origin = []       # per atom: (global symbol position, symbol, ((pos, branch symbol), ...))
        self.bond_sum = []
        self.stats = collections.Counter()
        self.max_depth = 0     # deepest nesting of applied branch symbols
        self.ring_queue = []   # (l, r, order, (lmark, rmark)) as queued
        self.ring_events = []  # per queued ring: 'self'|'refused'|'merged'|'made'
        self.index_pos = set() # global positions of symbols consumed as index digits
        self.live_branch_pos = set()  # global positions of atoms derived inside a branch

    # views used by the comparisons -------------------------------------------------------
    def atom_keys(self):
        return [(a["el"], a["iso"], a["chir"], a["h"], a["charge"]) for a in self.atoms]

    def mark_view(self):
        """{(i,j): (frozenset of directions seen walking low->high, raw pair or None)}"""
        out = {}
        for k, c in self.chain_mark.items():
            if self.bonds[k] == 1:
                out[k] = (frozenset([c]), None)
        for k, (l, r) in self.ring_mark.items():
            if self.bonds[k] == 1 and (l or r):
                s = set()
                if l:
                    s.add(l)
                if r:
                    s.add("\\" if r == "/" else "/")
                out[k] = (frozenset(s), (l, r) if len(s) > 1 else None)
        return out

    def nbr_order(self, i):
        l = []
        if self.parent[i] is not None:
            l.append(self.parent[i])
        a = self.atoms[i]
        if a["chir"] and a["h"]:
            l.append("H")
        return l + self.rings_at[i] + self.children[i]

    def max_open_rings(self):
        """how many ring closures are open at once when the atoms are written in derivation order
        with each atom's ring digits in formation order (which is what fixes the chiral sense)"""
        best = cur = 0
        for i in range(len(self.atoms)):
            for p in self.rings_at[i]:
                if p > i:
                    cur += 1
                    if cur > best:
                        best = cur
                else:
                    cur -= 1
        return best


def parse_atom_symbol(sym, table):
    m = ATOM.fullmatch(sym)
    if not m:
        return None
    b, iso, el, chir, h, ch = m.groups()
    if el not in ELEMENTS:
        return None
    body = sym[1 + len(b):-1]
    if body in ORGANIC:
        atom = dict(el=el, iso=None, chir=None, h=None, charge=0)
    else:
        atom = dict(el=el, iso=(int(iso) if iso else None), chir=(chir or None),
                    h=(int(h) if h is not None else 0), charge=(int(ch) if ch else 0))
    cap = capacity(table, atom["el"], atom["charge"]) - (atom["h"] or 0)
    if cap < 0:
        return None
    return b, atom, cap


_ATOM_CACHE = {}


def _atom(sym, table, tkey):
    k = (sym, tkey)
    try:
        return _ATOM_CACHE[k]
    except KeyError:
        if len(_ATOM_CACHE) > 200000:
            _ATOM_CACHE.clear()
        v = _ATOM_CACHE[k] = parse_atom_symbol(sym, table)
        return v


class _Frame:
    __slots__ = ("budget", "used", "state", "prev", "encl")

    def __init__(self, budget, state, prev, encl):
        self.budget = budget
        self.used = 0
        self.state = state
        self.prev = prev
        self.encl = encl


def derive(x, table):
    frags = split_fragments(x) if isinstance(x, str) else x
    mol = RMol()
    st = mol.stats
    tkey = id(table)
    _ATOM_CACHE_local = {}
    offset = 0
    for frag in frags:
        toks = [t for t in frag if t != "[nop]"]
        _derive_fragment(toks, offset, mol, table, _ATOM_CACHE_local)
        offset += len(toks)
    # second pass: ring bonds in order of appearance
    bs = mol.bond_sum
    for (l, r, order, marks) in mol.ring_queue:
        if l == r:
            st["ring_self"] += 1
            mol.ring_events.append("self")
            continue
        lfree = mol.caps[l] - bs[l]
        rfree = mol.caps[r] - bs[r]
        if lfree <= 0 or rfree <= 0:
            st["ring_refused"] += 1
            mol.ring_events.append("refused")
            continue
        o = min(order, lfree, rfree)
        if o < order:
            st["ring_reduced"] += 1
        key = (l, r)
        if key in mol.bonds:
            new = min(mol.bonds[key] + o, 3)
            st["ring_on_bond"] += 1
            if key in mol.ring_mark:
                st["ring_repeated"] += 1
            bs[l] += new - mol.bonds[key]
            bs[r] += new - mol.bonds[key]
            mol.bonds[key] = new
            mol.ring_events.append("merged")
        else:
            mol.bonds[key] = o
            bs[l] += o
            bs[r] += o
            mol.ring_mark[key] = marks
            mol.rings_at[l].append(r)
            mol.rings_at[r].append(l)
            st["ring_made"] += 1
            mol.ring_events.append("made")
    return mol


def _derive_fragment(toks, offset, mol, table, cache):
    st = mol.stats
    n = len(toks)
    pos = 0
    frames = [_Frame(INF, 0, None, ())]
    while frames:
        f = frames[-1]
        if f.state is None or f.used >= f.budget or pos >= n:
            # this derivation instance is over: the rest of its budget is consumed unchecked
            if f.used < f.budget and pos < n:
                k = n - pos if f.budget == INF else min(n - pos, f.budget - f.used)
                if k > 0:
                    st["ignored_after_termination"] += k
                    pos += k
                    f.used += k
            frames.pop()
            if frames:
                frames[-1].used += f.used
                if frames[-1].used > frames[-1].budget:
                    st["branch_overrun"] += 1
            continue
        i = pos
        sym = toks[pos]
        pos += 1
        f.used += 1
        mb = BRANCH.fullmatch(sym)
        if mb is not None:
            if f.state <= 1:
                st["branch_skipped"] += 1
                continue
            M = ORDER[mb.group(1)]
            L = int(mb.group(2))
            nst = min(f.state - 1, M)
            f.state = f.state - nst
            q = 0
            for _ in range(L):
                if pos < n:
                    q = q * 16 + IDX.get(toks[pos], 0)
                    mol.index_pos.add(offset + pos)
                    pos += 1
                else:
                    q = q * 16
                    st["index_truncated"] += 1
            f.used += L
            if L > 1:
                st["index_multi"] += 1
            st["branch_applied"] += 1
            if len(frames) > 1:
                st["nested_branch"] += 1
            frames.append(_Frame(q + 1, nst, f.prev, f.encl + ((offset + i, sym),)))
            if len(frames) - 1 > mol.max_depth:
                mol.max_depth = len(frames) - 1
            continue
        mr = RING.fullmatch(sym)
        if mr is not None:
            pre = mr.group(1)
            if pre == "--":
                raise Reject(sym)
            if f.state == 0:
                st["ring_skipped_x0"] += 1
                continue
            L = int(mr.group(2))
            if len(pre) == 2:
                order = 1
                marks = tuple(None if c == "-" else c for c in pre)
            else:
                order = ORDER[pre]
                marks = (None, None)
            o = min(order, f.state)
            left = f.state - o
            q = 0
            for _ in range(L):
                if pos < n:
                    q = q * 16 + IDX.get(toks[pos], 0)
                    mol.index_pos.add(offset + pos)
                    pos += 1
                else:
                    q = q * 16
                    st["index_truncated"] += 1
            f.used += L
            if L > 1:
                st["index_multi"] += 1
            tgt = f.prev - (q + 1)
            if tgt < 0:
                tgt = 0
                st["ring_clipped_to_first"] += 1
            mol.ring_queue.append((tgt, f.prev, o, marks))
            st["ring_applied"] += 1
            f.state = left if left else None
            continue
        if sym == "[epsilon]":
            if f.state != 0:
                f.state = None
                st["epsilon_terminates"] += 1
            continue
        try:
            pa = cache[sym]
        except KeyError:
            pa = cache[sym] = parse_atom_symbol(sym, table)
        if pa is None:
            raise Reject(sym)
        b, atom, cap = pa
        if f.state == 0:
            idx = _add(mol, atom, cap, (offset + i, sym, f.encl))
            mol.roots.append(idx)
            f.prev = idx
            f.state = cap if cap else None
        else:
            mu = min(ORDER[b], cap, f.state)
            if mu == 0:
                f.state = None
                st["atom_dropped_cap0"] += 1
            else:
                if mu < ORDER[b]:
                    st["bond_reduced"] += 1
                idx = _add(mol, atom, cap, (offset + i, sym, f.encl))
                mol.bonds[(f.prev, idx)] = mu
                mol.bond_sum[f.prev] += mu
                mol.bond_sum[idx] += mu
                if b == "/" or b == "\\":
                    mol.chain_mark[(f.prev, idx)] = b
                mol.children[f.prev].append(idx)
                mol.parent[idx] = f.prev
                f.prev = idx
                left = cap - mu
                f.state = left if left else None


def _add(mol, atom, cap, origin):
    mol.atoms.append(dict(atom))
    mol.caps.append(cap)
    mol.children.append([])
    mol.parent.append(None)
    mol.rings_at.append([])
    mol.origin.append(origin)
    mol.bond_sum.append(0)
    return len(mol.atoms) - 1


# ---------------------------------------------------------------------------------------- compare


def compare_with_smiles(rm, sm):
    """rm: RMol from derive(); sm: refsmiles.Mol read from the decoder's output.
    Returns None if they are the same molecule in the sense of C02, else (what, expected, got)."""
    from vf.refsmiles import atom_key, mark_dirs, parity
    exp_atoms = rm.atom_keys()
    got_atoms = [atom_key(a) for a in sm.atoms]
    if exp_atoms != got_atoms:
        return ("atoms", exp_atoms, got_atoms)
    if rm.bonds != sm.bonds:
        return ("bonds", sorted(rm.bonds.items()), sorted(sm.bonds.items()))
    em, gm = rm.mark_view(), mark_dirs(sm)
    if em != gm:
        return ("marks", sorted((k, sorted(v[0]), v[1]) for k, v in em.items()),
                sorted((k, sorted(v[0]), v[1]) for k, v in gm.items()))
    if list(rm.roots) != list(sm.roots):
        return ("roots", rm.roots, sm.roots)
    for i, a in enumerate(rm.atoms):
        if a["chir"]:
            want = rm.nbr_order(i)
            got = sm.nbrs[i]
            if sorted(map(str, want)) != sorted(map(str, got)):
                return ("chiral_neighbours", want, got)
            if len(set(map(str, want))) == len(want) and parity(got, want) != 0:
                return ("chirality_sense", want, got)
    return None


def selftest():
    t = PRESETS["default"]
    m = derive("[F][=C][=C][#N]", t)
    assert m.atom_keys() == [("F", None, None, None, 0), ("C", None, None, None, 0), ("C", None, None, None, 0),
                             ("N", None, None, None, 0)]
    assert m.bonds == {(0, 1): 1, (1, 2): 2, (2, 3): 2}
    m = derive("[C][Branch1][C][F][Cl]", t)
    assert m.bonds == {(0, 1): 1, (0, 2): 1}
    m = derive("[C][=Branch1][Ring2][=C][C][C][Cl]", t)          # tutorial: C(=CCC)Cl
    assert m.bonds == {(0, 1): 2, (1, 2): 1, (2, 3): 1, (0, 4): 1}
    m = derive("[C][=Branch1][Branch1][Branch1][C][C][Cl][F]", t)  # tutorial example 5: C(C)(Cl)F
    assert m.bonds == {(0, 1): 1, (0, 2): 1, (0, 3): 1}, m.bonds
    m = derive("[C][=C][C][=C][C][=C][Ring1][=Branch1]", t)
    assert m.bonds[(0, 5)] == 1 and len(m.bonds) == 6
    m = derive("[C][C][=Ring1][C]", t)                            # tutorial: C#C
    assert m.bonds == {(0, 1): 3}
    m = derive("[C][C][C][C][=Ring1][Ring2][#Ring1][Ring2]", t)   # tutorial example 6: C#1CCC#1
    assert m.bonds[(0, 3)] == 3
    m = derive("[C][C][C][C][Branch1][C][C][Ring1][Ring2][C][C]", t)  # tutorial example 5 (rings)
    assert m.bonds == {(0, 1): 1, (1, 2): 1, (2, 3): 1, (3, 4): 1, (0, 3): 1, (3, 5): 1, (5, 6): 1}, m.bonds
    m = derive("[C][C][C][CH4]", t)
    assert len(m.atoms) == 3
    m = derive("[C][epsilon][C].[N][nop][O]", t)
    assert len(m.atoms) == 3 and m.roots == [0, 1] and m.origin[2][0] == 4
    for bad in ("[C][Xx]", "[C][Branch4][C]", "[CH5]", "[C][--Ring1]", "[C][N"):
        try:
            derive(bad, t)
        except Reject:
            pass
        else:
            raise AssertionError(bad)
    assert derive("[C][F][Xx]", t).stats["ignored_after_termination"] == 1
    assert capacity(t, "N", 1) == 4 and capacity(t, "Fe", 3) == 8 and capacity({"?": 2, "Fe+10": 5}, "Fe", 10) == 5
    assert key_is_documented("Fe+10") and not key_is_documented("C+0") and not key_is_documented("C+01")
    assert {"[#C]", "[=O]", "[F]", "[#S-1]", "[Ring3]", "[=Ring1]", "[#Branch3]"} <= expected_alphabet(t)
    assert "[=F]" not in expected_alphabet(t) and "[#O]" not in expected_alphabet(t)
