"""R4 - kekulization reference: first-principles 'needs a pi bond' classification and exact perfect
matching (bitmask DP on small graphs, Edmonds' blossom algorithm on large ones, cross-checked)."""
from collections import deque
from functools import lru_cache

# normal valence V(element, charge) for closed-shell atoms whose classification follows from it alone
V = {("C", 0): 4, ("C", 1): 3, ("C", -1): 3, ("N", 0): 3, ("N", 1): 4, ("N", -1): 2, ("O", 0): 2, ("O", 1): 3, ("O", -1): 1,
     ("S", 0): 2, ("S", 1): 3, ("S", -1): 1, ("P", 0): 3, ("P", 1): 4, ("P", -1): 2, ("B", 0): 3, ("B", -1): 4, ("B", 1): 2,
     ("Se", 0): 2, ("Se", 1): 3, ("Te", 0): 2, ("Te", 1): 3, ("As", 0): 3, ("As", 1): 4, ("Si", 0): 4, ("Al", 0): 3}
STANDARD_ELEMENTS = {"C", "N", "O", "S", "P"}
# higher normal valences of the organic subset (OpenSMILES): an unbracketed aromatic atom whose sigma bonds already add up to one of them
HIGHER = {"S": (4, 6), "Se": (4, 6), "Te": (4, 6), "P": (5,), "As": (5,), "N": (5,)}


def needs_pi(el, charge, h, sigma):
    """True: needs exactly one pi bond inside the aromatic system; False: needs none (lone-pair donor, or
    satisfied by charge/substituents); None: not classifiable from the normal valence alone.
    h None = organic-subset aromatic atom (implicit hydrogens fill what is left after the pi bond)."""
    v = V.get((el, charge))
    if v is None:
        return None
    if h is None:
        if sigma == v:
            return False
        if charge == 0 and sigma in HIGHER.get(el, ()):
            return False          # saturated at a higher normal valence by substituents (s(=O), p(=O)(C), ...): no pi bond in the ring
        if sigma < v:
            # one implicit H may be needed as well (c with two sigma bonds); a pi bond is needed either way,
            # except for the chalcogens/pnictogens where sigma == v - 1 cannot happen in a ring
            if v - sigma > 2:
                return None
            return True
        return None
    if sigma + h + 1 == v:
        return True
    if sigma + h == v:
        return False
    return None


def is_standard_kind(el, charge, h, sigma):
    """the kinds the statement lists: c, n, o, s, p, [nH], substituted n, [n+]"""
    if el not in STANDARD_ELEMENTS:
        return False
    if charge == 0:
        return h is None or (el == "N" and h == 1) or (el == "P" and h == 1)
    return el == "N" and charge == 1


# ------------------------------------------------------------------------------------------ matching


def has_perfect_matching_dp(n, adj):
    """adj: list of neighbour lists over 0..n-1; exact, n <= ~24"""
    if n % 2:
        return False
    nb = [sorted(set(a)) for a in adj]
    full = (1 << n) - 1

    @lru_cache(maxsize=None)
    def f(mask):
        if mask == full:
            return True
        i = 0
        while mask >> i & 1:
            i += 1
        for j in nb[i]:
            if not mask >> j & 1 and j != i:
                if f(mask | 1 << i | 1 << j):
                    return True
        return False
    try:
        return f(0)
    finally:
        f.cache_clear()


def max_matching_blossom(n, adj):
    """Edmonds' blossom algorithm, O(V^3). returns match list (-1 = unmatched)"""
    match = [-1] * n
    p = [-1] * n
    base = list(range(n))
    used = [False] * n
    blossom = [False] * n
    q = deque()

    def lca(a, b):
        seen = [False] * n
        while True:
            a = base[a]
            seen[a] = True
            if match[a] == -1:
                break
            a = p[match[a]]
        while True:
            b = base[b]
            if seen[b]:
                return b
            b = p[match[b]]

    def mark_path(v, b, x):
        while base[v] != b:
            blossom[base[v]] = True
            blossom[base[match[v]]] = True
            p[v] = x
            x = match[v]
            v = p[match[v]]

    def find_path(root):
        for i in range(n):
            used[i] = False
            p[i] = -1
            base[i] = i
        q.clear()
        q.append(root)
        used[root] = True
        while q:
            v = q.popleft()
            for to in adj[v]:
                if base[v] == base[to] or match[v] == to:
                    continue
                if to == root or (match[to] != -1 and p[match[to]] != -1):
                    cur = lca(v, to)
                    for i in range(n):
                        blossom[i] = False
                    mark_path(v, cur, to)
                    mark_path(to, cur, v)
                    for i in range(n):
                        if blossom[base[i]]:
                            base[i] = cur
                            if not used[i]:
                                used[i] = True
                                q.append(i)
                elif p[to] == -1:
                    p[to] = v
                    if match[to] == -1:
                        return to
                    used[match[to]] = True
                    q.append(match[to])
        return -1

    for v in range(n):
        if match[v] == -1:
            u = find_path(v)
            while u != -1:
                pv = p[u]
                ppv = match[pv]
                match[u] = pv
                match[pv] = u
                u = ppv
    return match


def has_perfect_matching(n, adj):
    if n % 2:
        return False
    if n == 0:
        return True
    if n <= 20:
        return has_perfect_matching_dp(n, adj)
    m = max_matching_blossom(n, adj)
    return all(x != -1 for x in m)


def is_perfect_matching(n, adj, m):
    if m is None or len(m) != n:
        return False
    for i in range(n):
        j = m[i]
        if j is None or not isinstance(j, int) or j == i or j < 0 or j >= n or j not in adj[i] or m[j] != i:
            return False
    return True


def selftest():
    import random
    rnd = random.Random(99)
    assert needs_pi("C", 0, None, 2) is True and needs_pi("C", 0, None, 3) is True and needs_pi("C", 0, None, 4) is False
    assert needs_pi("N", 0, None, 2) is True and needs_pi("N", 0, None, 3) is False and needs_pi("N", 0, 1, 2) is False
    assert needs_pi("O", 0, None, 2) is False and needs_pi("S", 0, None, 2) is False and needs_pi("N", 1, 0, 3) is True
    assert needs_pi("N", 1, 1, 2) is True and needs_pi("C", -1, 0, 2) is True and needs_pi("C", -1, 1, 2) is False
    assert needs_pi("B", 0, None, 3) is False and needs_pi("C", 0, 0, 2) is None
    # blossom == DP on random small graphs (incl. non-bipartite)
    for t in range(1500):
        n = rnd.choice([4, 6, 8, 10, 12, 14])
        adj = [[] for _ in range(n)]
        for _ in range(rnd.randint(n // 2, 2 * n)):
            a, b = rnd.sample(range(n), 2)
            if b not in adj[a] and len(adj[a]) < 4 and len(adj[b]) < 4:
                adj[a].append(b)
                adj[b].append(a)
        m = max_matching_blossom(n, adj)
        full = all(x != -1 for x in m)
        assert full == has_perfect_matching_dp(n, adj), (n, adj)
        if full:
            assert is_perfect_matching(n, adj, m)
    # Petersen graph has a perfect matching, a triangle with a tail of odd size has none
    pet = [[] for _ in range(10)]
    for i in range(5):
        for a, b in ((i, (i + 1) % 5), (i, i + 5), (5 + i, 5 + (i + 2) % 5)):
            pet[a].append(b)
            pet[b].append(a)
    assert has_perfect_matching(10, pet)
    assert not has_perfect_matching(4, [[1, 2], [0, 2], [0, 1], []])
