"""R1 - independent strict reader for the OpenSMILES subset selfies reads and writes.

Imports nothing from selfies.  `read(s)` returns a Mol or raises SmilesError(kind).
It is strict on purpose: it is the judge of "syntactically well formed" in C01.
"""
import re

ELEMENTS = frozenset("""H He Li Be B C N O F Ne Na Mg Al Si P S Cl Ar K Ca Sc Ti V Cr Mn Fe Co Ni Cu Zn Ga Ge
As Se Br Kr Rb Sr Y Zr Nb Mo Tc Ru Rh Pd Ag Cd In Sn Sb Te I Xe Cs Ba La Ce Pr Nd Pm Sm Eu Gd Tb Dy Ho Er Tm
Yb Lu Hf Ta W Re Os Ir Pt Au Hg Tl Pb Bi Po At Rn Fr Ra Ac Th Pa U Np Pu Am Cm Bk Cf Es Fm Md No Lr Rf Db Sg
Bh Hs Mt Ds Rg Cn Fl Lv""".split())
ORGANIC = frozenset({"B", "C", "N", "O", "S", "P", "F", "Cl", "Br", "I"})
AROMATIC_ORGANIC = frozenset({"b", "c", "n", "o", "s", "p"})
AROMATIC_BRACKET = frozenset({"b", "c", "n", "o", "s", "p", "se", "as", "te", "si", "al"})
BRACKET = re.compile(
    r"^\[(\d*)([A-Z][a-z]?|[a-z][a-z]?)(@{0,2})(H\d?)?((?:\+\d+|-\d+|\++|-+)?)(:\d+)?\]$"
)
BOND_ORDER = {"-": 1, "/": 1, "\\": 1, "=": 2, "#": 3, ":": 1.5}


class SmilesError(Exception):
    def __init__(self, kind, pos=None):
        super().__init__("%s at %s" % (kind, pos))
        self.kind = kind
        self.pos = pos


class Mol:
    """atoms: list of dict(el, iso, chir, h, charge, arom)  (h None = organic-subset implicit)
    bonds: {(i, j) i<j: order}
    marks: {(i, j): {'chain': c}} for chain bonds written i-then-j with mark c seen walking i->j,
           {(i, j): {'lo': c|None, 'hi': c|None}} for ring bonds: the mark written at the digit on
           the lower-index atom resp. the higher-index atom.
    nbrs:  written neighbour order per atom: ints and 'H'
    """

    def __init__(self):
        self.atoms = []
        self.bonds = {}
        self.marks = {}
        self.nbrs = []
        self.roots = []
        self.ring_bonds = set()
        self.ring_labels = []      # (label, i, j) in closing order
        self.max_open = 0
        self.max_depth = 0
        self.digit_after_branch = False   # 'C(Cl)1...': accepted by most readers, outside the OpenSMILES grammar

    def bond_sum(self, i):
        return sum(o for (a, b), o in self.bonds.items() if a == i or b == i)

    def bond_sums(self):
        s = [0] * len(self.atoms)
        for (a, b), o in self.bonds.items():
            s[a] += o
            s[b] += o
        return s


def parse_atom(tok):
    if tok in ORGANIC:
        return dict(el=tok, iso=None, chir=None, h=None, charge=0, arom=False)
    if tok in AROMATIC_ORGANIC:
        return dict(el=tok.capitalize(), iso=None, chir=None, h=None, charge=0, arom=True)
    m = BRACKET.fullmatch(tok)
    if not m:
        raise SmilesError("bad_atom:" + tok[:20])
    iso, el, chir, h, ch, _cls = m.groups()
    arom = el[0].islower()
    if arom and el not in AROMATIC_BRACKET:
        raise SmilesError("bad_aromatic_element:" + el)
    el = el.capitalize()
    if el not in ELEMENTS:
        raise SmilesError("bad_element:" + el)
    if h is None:
        hcount = 0
    elif h == "H":
        hcount = 1
    else:
        hcount = int(h[1:])
    if not ch:
        charge = 0
    elif ch[-1].isdigit():
        charge = int(ch[1:]) * (1 if ch[0] == "+" else -1)
    else:
        charge = len(ch) * (1 if ch[0] == "+" else -1)
    return dict(el=el, iso=(int(iso) if iso else None), chir=(chir or None), h=hcount, charge=charge, arom=arom)


def read(smiles):
    mol = Mol()
    if smiles == "":
        return mol
    i = 0
    n = len(smiles)
    prev = None          # previous atom on the current chain
    stack = []
    open_rings = {}      # label -> (atom, bondchar, slot index in nbrs)
    pending = None       # pending bond char
    expect_atom = True   # at start / after '(' / after '.'
    branched = set()     # atoms that already had a branch closed
    while i < n:
        c = smiles[i]
        if c in BOND_ORDER:
            if pending is not None:
                raise SmilesError("double_bond_symbol", i)
            if prev is None:
                raise SmilesError("bond_without_prev", i)
            pending = c
            i += 1
            continue
        if c == "(":
            if pending is not None or prev is None or expect_atom:
                raise SmilesError("bad_open_paren", i)
            stack.append(prev)
            if len(stack) > mol.max_depth:
                mol.max_depth = len(stack)
            expect_atom = True
            i += 1
            continue
        if c == ")":
            if pending is not None or not stack or expect_atom:
                raise SmilesError("bad_close_paren", i)
            prev = stack.pop()
            branched.add(prev)
            i += 1
            continue
        if c == ".":
            if pending is not None or expect_atom:
                raise SmilesError("bad_dot", i)
            if stack:
                raise SmilesError("dot_in_branch", i)
            prev = None
            expect_atom = True
            i += 1
            continue
        if c.isdigit() or c == "%":
            if c == "%":
                lab = smiles[i + 1:i + 3]
                if len(lab) != 2 or not (lab.isascii() and lab.isdigit()):
                    raise SmilesError("bad_percent_label", i)
                i += 3
                label = int(lab)
            else:
                if not c.isascii():
                    raise SmilesError("bad_char", i)
                label = int(c)
                i += 1
            if prev is None or expect_atom:
                raise SmilesError("ring_without_atom", i)
            if prev in branched:
                mol.digit_after_branch = True
            if label in open_rings:
                a, bc, slot = open_rings.pop(label)
                b = prev
                if a == b:
                    raise SmilesError("self_bond", i)
                key = (a, b) if a < b else (b, a)
                if key in mol.bonds:
                    raise SmilesError("duplicate_bond", i)
                o1 = BOND_ORDER.get(bc) if bc else None
                o2 = BOND_ORDER.get(pending) if pending else None
                if o1 is not None and o2 is not None and o1 != o2:
                    raise SmilesError("ring_bond_mismatch", i)
                if o1 is not None:
                    order = o1
                elif o2 is not None:
                    order = o2
                else:
                    order = 1.5 if (mol.atoms[a]["arom"] and mol.atoms[b]["arom"]) else 1
                mol.bonds[key] = order
                mol.ring_bonds.add(key)
                mol.ring_labels.append((label, a, b))
                mol.nbrs[a][slot] = b
                mol.nbrs[b].append(a)
                m_open = bc if bc in ("/", "\\") else None
                m_close = pending if pending in ("/", "\\") else None
                if m_open or m_close:
                    mol.marks[key] = {"lo": m_open, "hi": m_close} if a < b else {"lo": m_close, "hi": m_open}
            else:
                mol.nbrs[prev].append(None)
                open_rings[label] = (prev, pending or "", len(mol.nbrs[prev]) - 1)
                if len(open_rings) > mol.max_open:
                    mol.max_open = len(open_rings)
            pending = None
            continue
        # atom
        if c == "[":
            j = smiles.find("]", i)
            if j < 0:
                raise SmilesError("unclosed_bracket", i)
            tok = smiles[i:j + 1]
        elif smiles[i:i + 2] in ("Cl", "Br"):
            tok = smiles[i:i + 2]
        elif c in ORGANIC or c in AROMATIC_ORGANIC:
            tok = c
        else:
            raise SmilesError("bad_char", i)
        atom = parse_atom(tok)
        idx = len(mol.atoms)
        mol.atoms.append(atom)
        mol.nbrs.append([])
        if prev is None:
            if pending is not None:
                raise SmilesError("bond_without_prev", i)
            mol.roots.append(idx)
        else:
            if pending:
                order = BOND_ORDER[pending]
            else:
                order = 1.5 if (atom["arom"] and mol.atoms[prev]["arom"]) else 1
            mol.bonds[(prev, idx)] = order
            if pending in ("/", "\\"):
                mol.marks[(prev, idx)] = {"chain": pending}
            mol.nbrs[prev].append(idx)
            mol.nbrs[idx].append(prev)
        if atom["h"] and atom["chir"]:
            mol.nbrs[idx].append("H")
        prev = idx
        pending = None
        expect_atom = False
        i += len(tok)
    if pending is not None:
        raise SmilesError("dangling_bond")
    if stack:
        raise SmilesError("unclosed_paren")
    if open_rings:
        raise SmilesError("unclosed_ring")
    if expect_atom and mol.atoms:
        raise SmilesError("trailing_separator")
    return mol


def atom_key(a):
    return (a["el"], a["iso"], a["chir"], a["h"], a["charge"])


def parity(seq_a, seq_b):
    """0/1 parity of the permutation taking seq_a to seq_b (same elements, all distinct)"""
    pos = {x: i for i, x in enumerate(seq_b)}
    p = [pos[x] for x in seq_a]
    inv = 0
    for i in range(len(p)):
        for j in range(i + 1, len(p)):
            if p[i] > p[j]:
                inv += 1
    return inv & 1


def flip(c):
    return "\\" if c == "/" else "/"


def mark_dirs(mol):
    """{(i,j): frozenset of directions 'seen walking low->high'} implied by the marks at the ends
    of each bond; plus the raw per-end pair for ring bonds whose two ends contradict."""
    out = {}
    for key, d in mol.marks.items():
        if "chain" in d:
            out[key] = (frozenset([d["chain"]]), None)
        else:
            s = set()
            if d.get("lo"):
                s.add(d["lo"])
            if d.get("hi"):
                s.add(flip(d["hi"]))
            raw = (d.get("lo"), d.get("hi")) if len(s) > 1 else None
            out[key] = (frozenset(s), raw)
    return out


# --------------------------------------------------------------------------------------------
# self test (run by setup and at check start): a few hand-verified readings


def selftest():
    m = read("C1=CC=CC=C1")
    assert len(m.atoms) == 6 and m.bonds[(0, 5)] == 1 and m.bonds[(0, 1)] == 2 and m.ring_bonds == {(0, 5)}
    m = read("[13C@@H](F)(Cl)Br")
    assert m.atoms[0] == dict(el="C", iso=13, chir="@@", h=1, charge=0, arom=False)
    assert m.nbrs[0] == ["H", 1, 2, 3]
    m = read("F/C=C/F")
    assert m.marks == {(0, 1): {"chain": "/"}, (2, 3): {"chain": "/"}}
    m = read("C/1CC\\1")
    assert m.marks == {(0, 2): {"lo": "/", "hi": "\\"}}
    assert mark_dirs(m)[(0, 2)][0] == frozenset(["/"])
    bad = [("C%10CC%100", "unclosed_ring"),  # OpenSMILES: %10 then 0
           ("C1CC", "unclosed_ring"), ("C11", "self_bond"), ("C12CC12", "duplicate_bond"), ("C(C", "unclosed_paren"),
           ("CC)", "bad_close_paren"), ("C=", "dangling_bond"), ("C=1CC-1", "ring_bond_mismatch"), ("C()C", "bad_close_paren"),
           ("C..C", "bad_dot"), ("C.", "trailing_separator"), ("C1C1", "duplicate_bond"), ("[C", "unclosed_bracket")]
    for s, k in bad:
        try:
            read(s)
        except SmilesError as e:
            assert e.kind.split(":")[0] == k, (s, e.kind)
        else:
            raise AssertionError("accepted " + s)
    m = read("[Fe+10].[O-2].[N+](C)(C)(C)C.[nH]1cccc1")
    assert m.atoms[0]["charge"] == 10 and m.atoms[1]["charge"] == -2 and len(m.roots) == 4
    assert m.atoms[7]["arom"] and m.bonds[(7, 8)] == 1.5
    assert parity([1, 2, 3], [2, 1, 3]) == 1 and parity([1, 2, 3], [2, 3, 1]) == 0
