"""Shared by C03 / C04 / C10 / C06 / C17: molecule+spelling cases and the round trip through selfies."""
import re

import selfies as sf

from vf import gen_mol as GM
from vf import gen_selfies as G
from vf import gen_table as T
from vf import oracles as O
from vf import refderive as R
from vf import refsmiles
from vf.core import Chooser, Fail

_CORPUS_TRUTH = {}


def table_for(ch, truth, mode=None):
    """a table under which the molecule is accepted (mode 'fit'), or a freely drawn one ('free')"""
    mode = mode or ch.weighted([(7, "fit"), (3, "free")])
    if mode == "free":
        return T.gen_valid_table(ch)
    base = dict(R.PRESETS[ch.pick(T.PRESET_NAMES)])
    if ch.bool(40):
        base["?"] = ch.int(0, 12)
    per_atom = GM.usage(truth)
    need = {}
    for key, u, arom in per_atom:
        u = u + (1 if arom else 0)          # room for the double bond kekulization may place
        need[key] = max(need.get(key, 0), u)
    exact = ch.bool(50)
    for key, u in need.items():
        cur = base[key] if key in base else base["?"]
        if cur < u or (exact and key in base):
            base[key] = u if exact else max(u, cur)
        elif exact and ch.bool(50):
            base[key] = u
    return base


def violates(truth, table):
    """does the ground-truth molecule exceed the table? aromatic atoms: sigma + H, +1 if they need a pi bond is
    not known here, so aromatic atoms are judged on sigma + H only (conservative: returns None if undecided)"""
    undecided = False
    for key, u, arom in GM.usage(truth):
        cap = table[key] if key in table else table["?"]
        if u > cap:
            return True
        if arom and u + 1 > cap:
            undecided = True
    return None if undecided else False


def gen_case(ch, max_atoms=20, stereo=50, brackets=30, aromatic=20, table_mode=None, corpus_percent=15):
    if corpus_percent and ch.bool(corpus_percent):
        smi = ch.pick(G.corpus_smiles())
        truth = truth_from_reading(smi)
        if truth is not None:
            spec = table_for(ch, truth, table_mode)
            return dict(table=spec, smiles=smi, truth=truth, source="corpus")
    m = GM.gen_molecule(ch, max_atoms=max_atoms, stereo=stereo, brackets=brackets, aromatic=aromatic)
    w = GM.write(m, ch)
    if w is None:
        return None
    spec = table_for(ch, w["truth"], table_mode)
    return dict(table=spec, smiles=w["smiles"], truth=w["truth"], source="generated")


def truth_from_reading(smi):
    """ground truth of a corpus SMILES = the independent reader's reading of it (R1)"""
    if smi in _CORPUS_TRUTH:
        return _CORPUS_TRUTH[smi]
    try:
        r = refsmiles.read(smi)
    except refsmiles.SmilesError:
        _CORPUS_TRUTH[smi] = None
        return None
    atoms = [dict(el=a["el"], iso=a["iso"], h=a["h"], charge=a["charge"], chir=a["chir"], arom=a["arom"], kind=None) for a in r.atoms]
    bonds = sorted([i, j, o] for (i, j), o in r.bonds.items())
    marks = []
    marks_raw = []
    for k, (dirs, raw) in refsmiles.mark_dirs(r).items():
        if len(dirs) == 1:
            marks.append([k[0], k[1], next(iter(dirs))])
        elif raw is not None:
            marks_raw.append([k[0], k[1], raw[0], raw[1]])
    nbrs = {str(i): list(r.nbrs[i]) for i, a in enumerate(r.atoms) if a["chir"]}
    t = dict(atoms=atoms, bonds=bonds, marks=sorted(marks), marks_raw=sorted(marks_raw), nbrs=nbrs, ring_closures=len(r.ring_bonds), fragments=len(r.roots))
    _CORPUS_TRUTH[smi] = t
    return t


class RT:
    """result of encoder(strict) -> decoder -> independent reading"""
    __slots__ = ("table", "enc", "selfies", "dec", "smiles_out", "mol", "fail", "skipped")


def roundtrip(case, strict=None):
    if strict is None:
        strict = bool(case.get("strict", True))
    rt = RT()
    rt.fail = rt.skipped = rt.mol = rt.selfies = rt.smiles_out = None
    rt.table = O.use_table(case["table"])
    if rt.table is None:
        rt.skipped = "table not accepted by the library"
        return rt
    s = case["smiles"]
    rt.enc = O.encode(s, strict=strict)
    if rt.enc[0] == "exc":
        rt.fail = Fail("encoder:" + rt.enc[1], smiles=s[:300], error=rt.enc[2])
        return rt
    if rt.enc[0] == "err":
        rt.skipped = "encoder does not accept"
        return rt
    rt.selfies = rt.enc[1]
    rt.dec = O.decode(rt.selfies)
    if rt.dec[0] != "ok":
        rt.fail = Fail("decode_of_encoder_output_failed", smiles=s[:300], selfies=str(rt.selfies)[:300], got=rt.dec, table=case["table"])
        return rt
    rt.smiles_out = rt.dec[1]
    try:
        rt.mol = refsmiles.read(rt.smiles_out)
    except refsmiles.SmilesError as e:
        rt.fail = Fail("output_unreadable:" + e.kind.split(":")[0], smiles=s[:300], out=rt.smiles_out[:300])
    return rt


def classes_of(case, rt):
    s = case["smiles"]
    t = case["truth"]
    cl = []
    if t["fragments"] > 1:
        cl.append("multi_fragment")
    if "%" in s:
        cl.append("label_%nn")
    if re.search(r"(?<![\[\d%+\-H:@])0(?![^\[]*\])", s):
        cl.append("label_0")
    if t["ring_closures"] >= 1:
        cl.append("ring_closure")
    if t["ring_closures"] >= 4:
        cl.append("ring_closures>=4")
    if "(" in s:
        cl.append("branch")
    if "[" in s:
        cl.append("bracket_atom")
    if any(a["arom"] for a in t["atoms"]):
        cl.append("aromatic")
    if not isinstance(case["table"], str):
        cl.append("custom_table")
    if rt is not None and rt.selfies:
        e = rt.selfies
        if "Ring2]" in e or "Branch2]" in e:
            cl.append("index_2_symbols")
        if "Ring3]" in e or "Branch3]" in e:
            cl.append("index_3_symbols")
    if t["nbrs"]:
        cl.append("chiral")
    if t["marks"] or t.get("marks_raw"):
        cl.append("marks")
    if t.get("marks_raw"):
        cl.append("same_mark_at_both_ring_digits")
    if case.get("source") == "corpus":
        cl.append("corpus")
    return cl


def long_index_ladder(tier):
    """SMILES whose ring spans / branch lengths sit around the 1/2/3 index-symbol boundaries, plain and with cis/trans
    marks on the ring-closure bond (opening digit, closing digit, both) - enumerated, because a handful of generated
    cases would all be the smallest ones. Yields (name, smiles)."""
    ns = [14, 15, 16, 17, 254, 255, 256, 257, 300, 4093] if tier == "quick" else \
        [13, 14, 15, 16, 17, 18, 100, 253, 254, 255, 256, 257, 258, 300, 700, 2000, 4090, 4093]
    for n in ns:
        c = "C" * n
        yield "ring", "C1%sC1" % c
        yield "branch", "S(%sC)(F)Cl" % c
        yield "ring_mark_close", "C1%s/C=C/1\\F" % c
        yield "ring_mark_open", "F/C=C/1%sC1" % c
        yield "ring_mark_both", "F/C=C/1%sC/1" % c
        yield "ring_mark_back", "F\\C=C\\1%sC1" % c
        yield "ring_double", "C=1%sC=1" % c
