"""CLI:  python -m vf.run <ID> [--tier quick|thorough] [--replay FILE] [--shards N] [--scale F]

exit 0  property held on everything explored (KNOWN-FINDING lines may be printed)
exit 1  VIOLATION property=<id> replay=<path>   (one line per distinct failure signature)
exit 2  harness error (never a VIOLATION)
"""
import argparse
import glob
import importlib
import json
import multiprocessing
import os
import sys
import time
import traceback
import warnings

from vf import core
from vf.core import HERE, Ctx, Fail, HarnessError, jdump

LEVELS = {"exploration", "fault_enumeration", "model_checking", "proof", "translation_validation", "other"}


def load_known(pid):
    path = os.path.join(HERE, "known_findings.json")
    with open(path) as f:
        kf = json.load(f)
    opens = [e for e in kf.get("open", []) if e["property"] == pid]
    fixed = [e for e in kf.get("fixed", []) if e["property"] == pid]
    return opens, fixed


def _shard_main(args):
    modname, tier, seed, k, nshards, known_sigs, scale = args
    warnings.simplefilter("ignore")
    ctx = None
    try:
        sys.setrecursionlimit(1000)
        core.assert_repo()
        module = importlib.import_module(modname)
        ctx = Ctx(module, tier, seed, k, nshards, known_sigs, scale)
        module.shard(ctx)
        return ctx.acc.export()
    except HarnessError as e:
        if ctx is not None and ctx.acc.failures:
            # what this shard had found before the machinery failed still stands
            out = ctx.acc.export()
            out["harness_errors"] = list(out.get("harness_errors", [])) + [str(e)]
            return out
        return dict(harness_error=str(e))
    except BaseException:  # noqa
        return dict(harness_error=traceback.format_exc())


def write_replay(pid, sig, case, details):
    d = os.path.join(HERE, ".work", pid)
    os.makedirs(d, exist_ok=True)
    name = "replay-%016x.json" % core.h64(sig + jdump(case))
    path = os.path.join(d, name)
    with open(path, "w") as f:
        json.dump(dict(property=pid, signature=sig, case=case, observed=details), f, indent=1, default=str)
    return path


def main(argv=None):
    ap = argparse.ArgumentParser()
    ap.add_argument("pid")
    ap.add_argument("--tier", default=os.environ.get("VERIF_TIER", "quick"), choices=["quick", "thorough"])
    ap.add_argument("--replay")
    ap.add_argument("--shards", type=int, default=int(os.environ.get("VF_SHARDS", "16")))
    ap.add_argument("--scale", type=float, default=float(os.environ.get("VF_SCALE", "1")))
    ap.add_argument("--no-evidence", action="store_true")
    a = ap.parse_args(argv)
    pid = a.pid.upper()
    seed = int(os.environ.get("VERIF_SEED", "1") or "1")
    t0 = time.time()
    warnings.simplefilter("ignore")

    try:
        core.assert_repo()
        modname = "vf.props." + pid.lower()
        module = importlib.import_module(modname)
        opens, fixed = load_known(pid)
        known_sigs = [e["signature"] for e in opens]

        if a.replay:
            with open(a.replay) as f:
                doc = json.load(f)
            case = doc["case"] if "case" in doc else doc
            ctx = Ctx(module, a.tier, seed, 0, 1, known_sigs)
            res = ctx.evaluate(case)
            if res.fail is None:
                print("replay: property holds on this case")
                return 0
            print("replay: %s %s" % (res.fail.sig, jdump(res.fail.details)[:3000]))
            if res.fail.sig in known_sigs:
                print("KNOWN-FINDING: property=%s %s" % (pid, [e["what"] for e in opens if e["signature"] == res.fail.sig][0]))
                return 0
            print("VIOLATION property=%s replay=%s" % (pid, os.path.abspath(a.replay)))
            return 1

        # oracle self-tests
        for st in getattr(module, "SELFTESTS", ()):
            st()

        violations = []       # (sig, path, details)
        known_lines = []
        notes = []
        regress_n = 0
        ctx0 = Ctx(module, a.tier, seed, 0, 1, known_sigs)

        # 1. pinned regression inputs
        sig_what = {e["signature"]: e["what"] for e in opens}
        reproduced = set()
        for path in sorted(glob.glob(os.path.join(HERE, "regress", pid, "*.json"))):
            with open(path) as f:
                doc = json.load(f)
            expect = doc.get("expect", "pass")
            res = ctx0.evaluate(doc["case"])
            regress_n += 1
            if expect == "pass":
                if res.fail is not None and res.fail.sig not in known_sigs:
                    violations.append((res.fail.sig, path, res.fail.details))
                elif res.fail is not None:
                    reproduced.add(res.fail.sig)
            else:
                want = expect.split(":", 1)[1]
                if res.fail is None:
                    notes.append("known finding %s no longer reproduces on %s" % (want, os.path.basename(path)))
                elif res.fail.sig == want and want in known_sigs:
                    reproduced.add(want)
                elif res.fail.sig in known_sigs:
                    reproduced.add(res.fail.sig)
                else:
                    violations.append((res.fail.sig, path, res.fail.details))

        # 2. generated search, sharded over processes
        nshards = max(1, a.shards)
        jobs = [(modname, a.tier, seed, k, nshards, known_sigs, a.scale) for k in range(nshards)]
        if nshards == 1:
            outs = [_shard_main(jobs[0])]
        else:
            mp = multiprocessing.get_context("fork")
            with mp.Pool(min(nshards, os.cpu_count() or 1)) as pool:
                outs = pool.map(_shard_main, jobs, chunksize=1)
        herr = [o["harness_error"] for o in outs if "harness_error" in o]
        herr += [e for o in outs if "harness_error" not in o for e in o["harness_errors"]]
        found = any(o.get("failures") for o in outs if "harness_error" not in o)
        if herr and not found:
            print("HARNESS-ERROR property=%s\n%s" % (pid, herr[0]), file=sys.stderr)
            return 2
        if herr:
            # a violation found by one shard stands although the machinery failed in another; no evidence is written
            print("HARNESS-ERROR (in %d shard(s), violations found elsewhere are reported) property=%s\n%s" % (len(herr), pid, herr[0]), file=sys.stderr)
            outs = [o for o in outs if "harness_error" not in o]
            a.no_evidence = True

        import collections
        evaluations = regress_n
        nontrivial = set()
        classes = collections.Counter()
        excluded = collections.Counter()
        skipped = collections.Counter()
        cnotes = collections.Counter()
        samples, class_samples, failures, exhaustive = [], {}, {}, {}
        for o in outs:
            evaluations += o["evaluations"]
            nontrivial.update(o["nontrivial"])
            classes.update(o["classes"])
            excluded.update(o["excluded"])
            skipped.update(o["skipped"])
            cnotes.update(o["notes"])
            exhaustive.update(o["exhaustive"])
            for s in o["samples"]:
                if len(samples) < 10:
                    samples.append(s)
            for c, s in o["class_samples"].items():
                class_samples.setdefault(c, s)
            for sig, f in o["failures"].items():
                g = failures.get(sig)
                if g is None or f["size"] < g["size"]:
                    cnt = f["count"] + (g["count"] if g else 0)
                    failures[sig] = dict(f, count=cnt)
                else:
                    g["count"] += f["count"]
        for sig, f in sorted(failures.items()):
            path = write_replay(pid, sig, f["case"], f["details"])
            violations.append((sig, path, f["details"]))
        for sig in excluded:
            reproduced.add(sig)

        for e in opens:
            if e["signature"] in reproduced:
                known_lines.append("KNOWN-FINDING: property=%s %s [%s]" % (pid, e["what"], e["signature"]))
            else:
                notes.append("open known finding not reproduced in this run: %s" % e["signature"])

        wall = time.time() - t0
        if not samples:
            samples = list(class_samples.values())[:5]
        level = getattr(module, "LEVEL", "exploration")
        cov = dict(
            evaluations=evaluations,
            distinct_nontrivial=len(nontrivial),
            rule=module.RULE,
            samples=[_clip(s) for s in samples[:10]],
            classes=dict(sorted(classes.items())),
            class_samples={c: _clip(s) for c, s in list(sorted(class_samples.items()))[:25]},
            excluded_known=dict(excluded),
            outside_domain=dict(skipped),
            regress_inputs_replayed=regress_n,
            shards=nshards,
            notes=dict(cnotes),
            run_notes=notes,
        )
        if exhaustive:
            cov["exhaustive"] = True
            cov["exhaustive_subdomains"] = exhaustive
        ev = dict(property_id=pid, tier=a.tier, seed=seed, level=level, coverage=cov,
                  assumptions=list(getattr(module, "ASSUMPTIONS", [])), wall_s=round(wall, 2),
                  violations=len(violations))
        if not a.no_evidence:
            os.makedirs(os.path.join(HERE, "evidence"), exist_ok=True)
            with open(os.path.join(HERE, "evidence", pid + ".json"), "w") as f:
                json.dump(ev, f, indent=1, default=str)

        for line in known_lines:
            print(line)
        for n in notes:
            print("note: " + n)
        print("%s %s seed=%d: %d evaluations, %d distinct non-trivial, %d excluded as known, %.1fs" % (
            pid, a.tier, seed, evaluations, len(nontrivial), sum(excluded.values()), wall))
        top = ", ".join("%s=%d" % kv for kv in classes.most_common(12))
        if top:
            print("classes: " + top)
        if violations:
            for sig, path, details in violations:
                print("violation %s: %s" % (sig, jdump(details)[:1500]))
                print("VIOLATION property=%s replay=%s" % (pid, path))
            return 1
        return 0
    except HarnessError as e:
        print("HARNESS-ERROR property=%s\n%s" % (pid, e), file=sys.stderr)
        return 2
    except Exception:  # noqa
        print("HARNESS-ERROR property=%s\n%s" % (pid, traceback.format_exc()), file=sys.stderr)
        return 2


def _clip(s, n=600):
    t = jdump(s)
    if len(t) <= n:
        return s
    return t[:n] + "...(clipped)"


if __name__ == "__main__":
    sys.exit(main())
