"""Deterministic thread scheduler for C19: every job runs in a real thread under a trace function with
f_trace_opcodes = True for frames whose code lives under REPO/selfies; the thread blocks at every opcode
boundary once its budget is used up and the *schedule* (a list of (thread, opcodes) segments - a generated,
shrinkable value) decides who runs next."""
import os
import sys
import threading

from vf.core import REPO, HarnessError

SELFIES_DIR = os.path.join(REPO, "selfies") + os.sep


class Sched:
    def __init__(self, jobs, schedule, wait_s=120):
        self.jobs = jobs
        self.schedule = list(schedule)
        self.n = len(jobs)
        self.sems = [threading.Semaphore(0) for _ in jobs]
        self.back = threading.Semaphore(0)
        self.done = [False] * self.n
        self.results = [None] * self.n
        self.budget = [0] * self.n
        self.steps = [0] * self.n
        self.wait_s = wait_s
        self.switches_mid_call = 0

    def _tracer(self, i):
        def local(frame, event, arg):
            if event == "opcode":
                self.steps[i] += 1
                self.budget[i] -= 1
                if self.budget[i] <= 0:
                    self.back.release()
                    self.sems[i].acquire()
            return local

        def glob(frame, event, arg):
            if frame.f_code.co_filename.startswith(SELFIES_DIR):
                frame.f_trace_opcodes = True
                frame.f_trace_lines = False
                return local
            return None
        return glob

    def _worker(self, i):
        self.sems[i].acquire()
        sys.settrace(self._tracer(i))
        try:
            try:
                self.results[i] = ("ok", self.jobs[i]())
            except BaseException as e:  # noqa
                self.results[i] = ("exc", type(e).__name__, str(e)[:200])
        finally:
            sys.settrace(None)
            self.done[i] = True
            self.back.release()

    def run(self):
        ths = [threading.Thread(target=self._worker, args=(i,), daemon=True) for i in range(self.n)]
        for t in ths:
            t.start()
        k = 0
        last = None
        while not all(self.done):
            if k < len(self.schedule):
                i, q = self.schedule[k]
                k += 1
                i %= self.n
            else:
                i, q = next(j for j in range(self.n) if not self.done[j]), 10 ** 9
            if self.done[i]:
                continue
            if last is not None and last != i and not self.done[last] and self.steps[last] > 0 and self.steps[i] > 0:
                self.switches_mid_call += 1
            last = i
            self.budget[i] = max(1, q)
            self.sems[i].release()
            if not self.back.acquire(timeout=self.wait_s):
                raise HarnessError("scheduler: thread %d did not come back within %d s" % (i, self.wait_s))
        for t in ths:
            t.join(self.wait_s)
        return self.results


_warm = [False]


def warm_up():
    """CPython 3.12 delivers no 'opcode' events to the first thread that switches opcode tracing on in a
    process (instruction events are enabled lazily); run one throw-away schedule first."""
    if _warm[0]:
        return
    import selfies as sf
    jobs = [lambda: sf.decoder("[C][=C][Branch1][C][O][C][Ring1][Ring2]"), lambda: sf.encoder("c1ccccc1[C@H](F)Cl")]
    Sched(jobs, [(0, 50), (1, 50)]).run()
    _warm[0] = True


def selftest():
    """determinism: the same jobs under the same schedule give the same results and opcode counts"""
    import selfies as sf
    warm_up()
    jobs = [lambda: sf.decoder("[C][=C][Branch1][C][O][C][Ring1][Ring2]"), lambda: sf.encoder("c1ccccc1[C@H](F)Cl")]
    sch = [(0, 37), (1, 91), (0, 5), (1, 300), (0, 1000)]
    a = Sched(jobs, sch)
    ra = a.run()
    b = Sched(jobs, sch)
    rb = b.run()
    assert ra == rb and a.steps == b.steps and a.steps[0] > 100 and a.steps[1] > 100, (ra, rb, a.steps, b.steps)
    assert a.switches_mid_call >= 2
