"""Deterministic thread scheduler for C19: every job runs in a real thread under a trace function with
f_trace_opcodes = True for frames whose code lives under REPO/selfies; the thread blocks at every opcode
boundary once its budget is used up and the *schedule* (a list of (thread, opcodes) segments - a generated,
shrinkable value) decides who runs next."""
import os
import sys
import threading

from vf.core import REPO, HarnessError

SELFIES_DIR = os.path.join(REPO, "selfies") + os.sep


class Stalled(Exception):
    """no thread made any progress for STALL_S seconds although every one of them is inside a call that takes
    milliseconds when run alone: the calls wait for each other (or for something nobody will release)"""

    def __init__(self, where, detail=""):
        Exception.__init__(self, where, detail)
        self.where = where
        self.detail = detail


BLOCK_S = 1.0      # a thread that executes no opcode for this long is treated as blocked (in a lock, say): others are run
STALL_S = 30.0     # all unfinished threads blocked for this long: Stalled


def _where(tid):
    f = sys._current_frames().get(tid)
    while f is not None and not f.f_code.co_filename.startswith(SELFIES_DIR):
        f = f.f_back
    if f is None:
        return "?"
    return "%s.%s" % (os.path.splitext(os.path.basename(f.f_code.co_filename))[0], f.f_code.co_name)


def run_watched(fn, stall_s=STALL_S):
    """fn() on a thread of its own; Stalled when the thread's innermost frame does not move for stall_s seconds
    (progress based: a slow call keeps moving, a call waiting for a lock nobody releases does not)"""
    import time
    box = []

    def target():
        try:
            box.append(("ok", fn()))
        except BaseException as e:  # noqa
            box.append(("exc", e))
    t = threading.Thread(target=target, daemon=True)
    t.start()
    t.join(0.05)
    last, t0 = None, time.monotonic()
    while t.is_alive():
        t.join(0.25)
        f = sys._current_frames().get(t.ident)
        cur = (id(f), f.f_lasti) if f is not None else None
        now = time.monotonic()
        if cur != last:
            last, t0 = cur, now
        elif now - t0 > stall_s:
            raise Stalled(_where(t.ident))
    if box[0][0] == "exc":
        raise box[0][1]
    return box[0][1]


class Sched:
    def __init__(self, jobs, schedule, wait_s=120):
        self.jobs = jobs
        self.schedule = list(schedule)
        self.n = len(jobs)
        self.sems = [threading.Semaphore(0) for _ in jobs]
        self.backs = [threading.Semaphore(0) for _ in jobs]
        self.done = [False] * self.n
        self.results = [None] * self.n
        self.budget = [0] * self.n
        self.steps = [0] * self.n
        self.wait_s = wait_s
        self.switches_mid_call = 0
        self.blocked_events = 0
        self.tids = [None] * self.n

    def _tracer(self, i):
        def local(frame, event, arg):
            if event == "opcode":
                self.steps[i] += 1
                self.budget[i] -= 1
                if self.budget[i] <= 0:
                    self.backs[i].release()
                    self.sems[i].acquire()
            return local

        def glob(frame, event, arg):
            if frame.f_code.co_filename.startswith(SELFIES_DIR):
                frame.f_trace_opcodes = True
                frame.f_trace_lines = False
                return local
            return None
        return glob

    def _worker(self, i):
        self.tids[i] = threading.get_ident()
        self.sems[i].acquire()
        sys.settrace(self._tracer(i))
        try:
            try:
                self.results[i] = ("ok", self.jobs[i]())
            except BaseException as e:  # noqa
                self.results[i] = ("exc", type(e).__name__, str(e)[:200])
        finally:
            sys.settrace(None)
            self.done[i] = True
            self.backs[i].release()

    def run(self):
        import time
        ths = [threading.Thread(target=self._worker, args=(i,), daemon=True) for i in range(self.n)]
        for t in ths:
            t.start()
        k = 0
        last = None
        blocked = set()       # threads that were given a budget and neither used it up nor finished: they wait inside a C call

        def reap():
            for b in list(blocked):
                if self.backs[b].acquire(blocking=False):
                    blocked.discard(b)

        while not all(self.done):
            reap()
            live = [j for j in range(self.n) if not self.done[j]]
            if not live:
                break
            if all(j in blocked for j in live):
                # nobody can run: wait for one of them to come back
                t0 = time.monotonic()
                snap = list(self.steps)
                while live and all(j in blocked for j in live):
                    time.sleep(0.05)
                    reap()
                    live = [j for j in live if not self.done[j]]
                    if snap != self.steps:
                        snap, t0 = list(self.steps), time.monotonic()
                    elif time.monotonic() - t0 > STALL_S:
                        raise Stalled(_where(self.tids[live[0]]), "all %d unfinished threads blocked" % len(live))
                continue
            if k < len(self.schedule):
                i, q = self.schedule[k]
                k += 1
                i %= self.n
            else:
                i, q = next(j for j in live if j not in blocked), 10 ** 9
            if self.done[i] or i in blocked:
                continue
            if last is not None and last != i and not self.done[last] and self.steps[last] > 0 and self.steps[i] > 0:
                self.switches_mid_call += 1
            last = i
            self.budget[i] = max(1, q)
            self.sems[i].release()
            t0 = tstart = time.monotonic()
            s0 = self.steps[i]
            while not self.backs[i].acquire(timeout=0.25):
                now = time.monotonic()
                if self.steps[i] != s0:
                    s0, t0 = self.steps[i], now
                elif now - t0 > BLOCK_S:
                    # it waits for something (a lock another - paused - thread holds?): let the others run
                    blocked.add(i)
                    self.blocked_events += 1
                    break
                if now - tstart > self.wait_s:
                    raise HarnessError("scheduler: thread %d did not use up its segment within %d s" % (i, self.wait_s))
        for t in ths:
            t.join(self.wait_s)
        return self.results


_warm = [False]


def warm_up():
    """CPython 3.12 delivers no 'opcode' events to the first thread that switches opcode tracing on in a
    process (instruction events are enabled lazily); run one throw-away schedule first."""
    if _warm[0]:
        return
    import selfies as sf
    jobs = [lambda: sf.decoder("[C][=C][Branch1][C][O][C][Ring1][Ring2]"), lambda: sf.encoder("c1ccccc1[C@H](F)Cl")]
    Sched(jobs, [(0, 50), (1, 50)]).run()
    _warm[0] = True


def selftest():
    """determinism: the same jobs under the same schedule give the same results and opcode counts"""
    import selfies as sf
    warm_up()
    jobs = [lambda: sf.decoder("[C][=C][Branch1][C][O][C][Ring1][Ring2]"), lambda: sf.encoder("c1ccccc1[C@H](F)Cl")]
    sch = [(0, 37), (1, 91), (0, 5), (1, 300), (0, 1000)]
    a = Sched(jobs, sch)
    ra = a.run()
    b = Sched(jobs, sch)
    rb = b.run()
    assert ra == rb and a.steps == b.steps and a.steps[0] > 100 and a.steps[1] > 100, (ra, rb, a.steps, b.steps)
    assert a.switches_mid_call >= 2
    # a job that takes a lock the other (paused) job holds is not a deadlock: the holder is run on, and both finish
    lk = threading.Lock()

    def locked():
        with lk:
            return sf.decoder("[C][=C][Branch1][C][O][C][Ring1][Ring2]")
    c = Sched([locked, locked], [(0, 40), (1, 40), (0, 10), (1, 10 ** 6), (0, 10 ** 6)])
    rc = c.run()
    assert rc[0] == rc[1] == ra[0] and c.blocked_events >= 1, (rc, c.blocked_events)
    # a lock nobody releases is one
    lk2 = threading.Lock()

    def leaky():
        lk2.acquire()
        return sf.decoder("[C][=C]")
    global STALL_S
    old, STALL_S = STALL_S, 2.0
    try:
        try:
            Sched([leaky, leaky], [(0, 10 ** 6), (1, 10 ** 6)]).run()
            raise AssertionError("leaked lock not noticed")
        except Stalled:
            pass
        try:
            lk3 = threading.Lock()
            lk3.acquire()
            run_watched(lambda: lk3.acquire(), stall_s=2.0)
            raise AssertionError("run_watched did not notice")
        except Stalled:
            pass
        assert run_watched(lambda: sf.decoder("[C][=C]")) == "C=C"
    finally:
        STALL_S = old
