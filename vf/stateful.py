"""Hypothesis rule-based state machines for the history properties (C11, C12).

A machine records every step it takes as a JSON-able dict and executes it through the property module's
`apply_step(state, step)`; the same function re-executes a recorded history for replay, so a shrunk failing
history is a plain replay file that does not need Hypothesis.
"""
import time

import hypothesis
from hypothesis import HealthCheck, Phase, settings
from hypothesis.stateful import RuleBasedStateMachine, run_state_machine_as_test

from vf.core import HarnessError, PropertyFailure, Result, _AbortShrink, jdump


class HistoryMachine(RuleBasedStateMachine):
    ctx = None           # set by drive_machine
    module = None
    track = None

    def __init__(self):
        super().__init__()
        tr = self.track
        if tr["target"] is not None:
            tr["calls"] += 1
            if tr["calls"] > self.ctx.shrink_calls // 4 or time.time() - tr["t0"] > self.ctx.shrink_s:
                raise _AbortShrink()
        self.steps = []
        self.state = self.module.new_state()
        self.info = dict(classes=set(), nontrivial=False)

    def do(self, step):
        self.steps.append(step)
        try:
            fail = self.module.apply_step(self.state, step, self.info)
        except (PropertyFailure, _AbortShrink, HarnessError):
            raise
        except Exception:
            import traceback
            raise HarnessError("oracle raised in step %s\n%s" % (jdump(step)[:500], traceback.format_exc()))
        if fail is None:
            return
        ctx = self.ctx
        tr = self.track
        if ctx.is_known(fail.sig):
            if tr["target"] is None:
                ctx.acc.excluded[fail.sig] += 1
            self.module.recover(self.state)
            self.steps.append(dict(op="recover"))
            return
        if tr["target"] is None:
            tr["target"] = fail.sig
            tr["t0"] = time.time()
        case = dict(steps=list(self.steps), **getattr(self.module, "case_extra", dict)())
        if fail.sig == tr["target"]:
            size = len(jdump(case))
            if tr["best"] is None or size < tr["best_size"]:
                tr["best"] = (case, fail)
                tr["best_size"] = size
            raise PropertyFailure(fail.sig)
        ctx.acc.add_failure(fail.sig, case, fail)
        self.module.recover(self.state)
        self.steps.append(dict(op="recover"))

    def teardown(self):
        tr = self.track
        if tr["target"] is None and self.steps:
            case = dict(steps=self.steps, **getattr(self.module, "case_extra", dict)())
            self.ctx.acc.count(case, Result(None, self.info["nontrivial"], tuple(sorted(self.info["classes"])),
                                            sample=dict(steps=[_brief(s) for s in self.steps[:14]])))
        try:
            self.module.cleanup(self.state)
        except Exception:  # noqa
            pass


def _brief(step):
    s = jdump(step)
    return step if len(s) < 160 else s[:160] + "..."


def drive_machine(ctx, name, machine_cls, n_examples, step_count):
    track = dict(target=None, best=None, best_size=None, calls=0, t0=None)
    cls = type(machine_cls.__name__ + "_" + name, (machine_cls,), dict(ctx=ctx, track=track))
    cls = hypothesis.seed(ctx.seed_for(name))(cls)
    st = settings(max_examples=n_examples, stateful_step_count=step_count, deadline=None, database=None,
                  report_multiple_bugs=False, suppress_health_check=list(HealthCheck),
                  phases=[Phase.generate, Phase.shrink], print_blob=False)
    try:
        run_state_machine_as_test(cls, settings=st)
    except PropertyFailure:
        pass
    except _AbortShrink:
        ctx.acc.notes["shrink_budget_exhausted"] += 1
    except hypothesis.errors.HypothesisException as e:
        if track["best"] is None:
            raise HarnessError("hypothesis error in %s: %r" % (name, e))
        ctx.acc.notes["hypothesis_%s" % type(e).__name__] += 1
    if track["best"] is not None:
        case, fail = track["best"]
        ctx.acc.add_failure(track["target"], case, fail)
    return track["best"] is None


def replay_history(module, case):
    """re-execute a recorded history without Hypothesis; returns a Result"""
    state = module.new_state()
    info = dict(classes=set(), nontrivial=False)
    fail = None
    try:
        steps = case["steps"]
        for i, step in enumerate(steps):
            if step.get("op") == "recover":
                module.recover(state)
                continue
            f = module.apply_step(state, step, info)
            if f is not None:
                if i + 1 < len(steps) and steps[i + 1].get("op") == "recover":
                    continue        # a recorded (known / secondary) failure the history recovered from
                fail = f
                break
    finally:
        module.cleanup(state)
    return Result(fail, info["nontrivial"], tuple(sorted(info["classes"])))
