"""Shared machinery of C08 / C09: run one translation call on a fresh thread (a stack a few frames deep,
default recursion limit) under a watchdog, classify the outcome."""
import collections
import os
import sys
import threading

import selfies as sf

from vf.core import REPO

WATCHDOG_S = 300.0


def classify_exception(exc):
    """'exc:Type@module.function' - the innermost frame under REPO/selfies; for RecursionError the selfies
    function that occurs most often in the traceback (the recursive one), so the signature is stable."""
    tb = exc.__traceback__
    frames = []
    while tb is not None:
        fn = tb.tb_frame.f_code.co_filename
        if fn.startswith(os.path.join(REPO, "selfies")):
            frames.append("%s.%s" % (os.path.splitext(os.path.basename(fn))[0], tb.tb_frame.f_code.co_name))
        tb = tb.tb_next
    if not frames:
        where = "?"
    elif isinstance(exc, RecursionError):
        where = collections.Counter(frames).most_common(1)[0][0]
    else:
        where = frames[-1]
    return "exc:%s@%s" % (type(exc).__name__, where)


def run_call(fn, expected, watchdog=WATCHDOG_S):
    """returns ('ok', value) | ('err', class name) | ('exc', signature, repr) | ('hang',)"""
    box = []

    def target():
        try:
            box.append(("ok", fn()))
        except expected as e:
            box.append(("err", type(e).__name__))
        except BaseException as e:  # noqa - everything else is what the property forbids
            box.append(("exc", classify_exception(e), repr(e)[:200]))

    t = threading.Thread(target=target, daemon=True)
    t.start()
    t.join(watchdog)
    if t.is_alive() or not box:
        return ("hang",)
    return box[0]


def flags_from(bits, names):
    return {n: bool(bits >> i & 1) for i, n in enumerate(names)}
